#!/usr/bin/env python3
"""Regenerates MANIFEST.json from one table (keeps it valid at all times)."""
import json
import os

HERE = os.path.dirname(os.path.abspath(__file__))
PY = '/venv/bin/python'

NA = {
    'C01': 'pure function of (library contents, mapping, T): no history, I/O, time or fault in the statement; only the input space could be searched, which is not deterministic simulation',
    'C02': 'pure function of (scheme text, molecule); needs an independent interpreter of scheme files on generated molecules (differential input testing), no schedule, clock or fault to control',
    'C03': 'metamorphic relation over spellings of one input; atom renumbering is input generation, not a schedule',
    'C04': 'metamorphic relation between three pure calls; nothing carries over between them',
    'C05': 'numerical identities of a spline correlation as a function of its table and T; no state, I/O or time',
    'C06': 'range checking and finiteness as a function of (correlation, T); no history once warnings are recorded with "always"',
    'C07': 'arithmetic identity between methods of one object at one T; its only stateful ingredient (the remembered molecule) is quantified away by the statement and the history-dependent part is decided under C15',
    'C08': 'pure function of (fragment text, molecule); needs an independent matcher and program/input generation, no schedule, clock or fault',
    'C10': 'pure evaluation of a string over a static unit table',
    'C11': 'pure operator algebra on immutable values',
    'C16': 'pure function of (rule text, molecule); no time or state clause',
    'C19': 'pure identity/hash relation on names',
    'C20': 'pure function of (library UQ block, mapping, T), computed once per estimate',
}

CHECKS = {}


def check(pid, engine, text, note, technique, design_ref, quick_to=None,
          thorough_to=None):
    # measured on 16 idle cores: quick 15-165 s (C15 the longest), thorough
    # 520-1350 s, C15 2360 s; the caps leave room for a loaded machine
    quick_to = quick_to or (1500 if pid == 'C15' else 900)
    thorough_to = thorough_to or (6000 if pid == 'C15' else 3600)
    CHECKS[pid] = {
        'property_id': pid,
        'quick_cmd': 'timeout %d %s /verif/run_check.py %s --tier quick'
                     % (quick_to, PY, pid),
        'thorough_cmd': 'timeout %d %s /verif/run_check.py %s --tier thorough'
                        % (thorough_to, PY, pid),
        'evidence_file': '/verif/evidence/%s.json' % pid,
        'replay_cmd_template': '%s /verif/run_check.py %s --replay {path}'
                               % (PY, pid),
        'engine': engine,
        'level_claimed': {'category': 'exploration', 'text': text,
                          'design_ref': design_ref},
        'level_note': note,
        'technique': technique,
    }


ENGINES = [
    {'name': 'text-stream sim', 'path': '/verif/checks/c09_text.py',
     'serves_properties': ['C09'],
     'kind_free_text': 'real RING reader under a simulated step clock (sys.monitoring LINE events) with seeded text-stream faults (EOF at any offset, token/byte faults); recording ParseState observes the final stream position'},
]

check('C09', 'text-stream sim',
      'Seeded search over RING texts and text-stream fault sequences run through the real reader under a deterministic step clock: every run must end within the step budget with a query object, a RING error with an in-text position, or the not-implemented error, and accepted text must be consumed in full. Truncation of every shipped pattern at every offset is exhaustive in the thorough tier; everything else is sampling, so a clean batch is evidence, not proof.',
      'Trusts the step budget (>= 50x the worst shipped fragment) to separate slow from hung, the LINE-event clock (C extensions are not seen), and the hand-written text generator to reach the grammar; fault-mutated texts <= 800 chars / <= 8 atoms, plus size strata (chains of up to 400 atoms, numbers of up to 9000 digits).',
      'deterministic simulation: simulated step clock + seeded text-stream fault injection (EOF/token/byte faults), replayable by seed',
      'DESIGN.md 3.1')


ENGINES.append(
    {'name': 'history sim', 'path': '/verif/checks/c15_history.py',
     'serves_properties': ['C15'],
     'kind_free_text': 'seeded interleaving of 1-3 logical clients over shared and private library objects (real pgradd end to end), transient file faults on loads through a pass-through open() seam, fresh-process oracle by fork of a pristine zygote (two-level: per library lineage), state-digest invariants after every step'})

check('C15', 'history sim',
      'Seeded search over operation histories (load / make a library with the public constructor / register a second property-set type / decompose (also other atom orders of the same compound) / estimate from any earlier decomposition, also from a plain copy of the mapping / evaluate with and without the elemental reference, repeated later / group evaluation / Mapping API / merge / re-load / change of the data-directory override / failing operations / loads under injected faults on any file of the include closure), plus fixed histories (observe-merge-observe for library pairs, constructor-made siblings, registration between loads, boundary molecules); each history runs in its own fresh forked process, interleaved over 1-3 clients that share or own library objects. Every observation is compared with the same minimal chain computed first in a fresh process, and after every step every live library, every descriptor mapping held by a client and the process-wide registries are digested and must be unchanged. Sampling over histories: a clean batch is evidence, not proof.',
      'One open known finding (S_elements of an estimate made from a plain dict copy of the descriptors, see known_findings.json) is printed as KNOWN-FINDING and its two example histories are replayed on every run. Trusts fork() of a just-imported interpreter as "fresh process" (a sample of reference values is recomputed in genuinely new interpreters under another hash seed on every run); operations are atomic scheduler steps (no pre-emption inside an operation); histories <= 40 operations, <= 3 live libraries, <= 2 merges per object.',
      'deterministic simulation: seeded scheduler over client histories + fault injection on loads, checked against fresh-process references and state-digest invariants',
      'DESIGN.md 3.4')


ENGINES.append(
    {'name': 'library-store sim', 'path': '/verif/checks/store.py',
     'serves_properties': ['C12', 'C13', 'C18'],
     'kind_free_text': 'real loader / merger / writer over an in-memory file system (SimFS behind the module globals open/os of Library, Scheme, DataDir) with a fault plan (lost file, EACCES, EIO on open, EIO on read, transient errors, injected conflicts, double spellings, missing units); seeded worlds (include trees, unit presentations) and operation histories; hand-written reference model of union/conflict/hull'})

check('C13', 'library-store sim',
      'Seeded search over multi-file stores and merge histories: the data of a few groups are split over an include tree (data may repeat across files), then loads, include permutations, re-nestings and diamonds (a file included twice), library and correlation merges with/without overwrite, repeated merges, and injected faults (conflicting datum, double spelling, damaged Cp row, lost/unreadable files, transient I/O errors; every load that must fail is retried once) are run against the real loader through an in-memory file system and against a small reference model (union, conflict unless overwrite, hull of ranges). Checked after every step: field-level refinement, evaluation equal to a single-file rendering, order-independence, idempotence, bit-identical target after a rejected correlation merge, untouched bystander libraries and merge sources, no library returned under an I/O fault. Sampling, not proof.',
      'Trusts the reference model (storegen.py) as the meaning of "union"; worlds share one reference temperature (as the property states), <= 8 groups, <= 6 files, depth <= 3, <= 25 operations; library-level merge is not required to be atomic (only the correlation-level clause is stated).',
      'deterministic simulation: in-memory file system with fault plan + seeded merge histories, refinement against a reference model after every step',
      'DESIGN.md 3.2')

check('C12', 'library-store sim',
      'Seeded search over unit presentations of one abstract world: file-level default-unit blocks (different per file, parent vs include), explicit unit strings with SI prefixes, non-dimensional keys and mixtures, numbers spelled plain / in exponent notation / quoted, many spellings of one unit, per-file temperature units; each presentation is loaded through the in-memory file system and compared field by field with the model and pairwise on a temperature grid; every returned value must be a plain number; a file whose dimensional value is left without any unit, or with a unit string nobody can evaluate (faults), must be rejected, also on a retry, and the good file must load unchanged afterwards. A further stratum puts the reference values of a group and its heat-capacity table into two files under different reference temperatures (fixed near-equal pairs such as 298.15 K / 298 K / 0.298 kK, and seeded ones) and demands the evaluation of the one-file presentation. Sampling, not proof.',
      'Trusts the harness unit factors (cal = 4.184 J, eV, Avogadro, prefixes, R = 8.314472) and its exact decimal rendering; each datum appears once per world so that cross-presentation equality is the only question asked; prefixed temperature units only where the conversion is exact; in the split-reference-temperature stratum the entropy (a numerical quadrature in pgradd) is compared to rel 1e-6, enthalpy and heat capacity to 1e-9, and the heat capacities are a slowly varying curve so that the quadrature is accurate.',
      'deterministic simulation: in-memory file system, per-file unit context as cross-file state, missing-unit fault injection, model refinement',
      'DESIGN.md 3.2')

check('C18', 'library-store sim',
      'Write-then-read through the store: correlations loaded from seeded worlds (absent parts, zero-valued parts, large/small magnitudes) are formatted with yaml_format in random unit choices, mutated between two exports in the same units (del_ND_H_ref, del_ND_S_ref, set_range, del_ND_Cp, update with and without overwrite - the latter usually rejected), and read back both directly and embedded as a group entry of a library file in the in-memory file system; fields must agree exactly (non-dimensional) or to six significant digits (dimensional, temperatures). Every group of every shipped library is exported in 4 unit sets x 2 temperature units (that finite part is exhaustive in the thorough tier, strided in quick).',
      'Trusts the comparison tolerances (6e-6 relative for six written digits); the embedded read-back uses a fixed indentation and group name.',
      'deterministic simulation: write-then-read (durability) over an in-memory file system; exhaustive over shipped groups',
      'DESIGN.md 3.2')


ENGINES.append(
    {'name': 'locate/restart sim', 'path': '/verif/checks/c14_locate.py',
     'serves_properties': ['C14'],
     'kind_free_text': 'real loaders on the real shipped YAML held in an in-memory file system (bundled location and/or relocated copies), simulated environment variable, one forked process per process lifetime (restart), copy faults (file lost / EACCES / EIO on open / EIO on read); the self-consistency sweep runs as the invariant after loading; a real-file-system tier in new interpreters cross-checks the stubs'})

check('C14', 'locate/restart sim',
      'Fault enumeration and seeded histories over the ways of locating a shipped library: the fixed matrix 9 libraries x {by name, by explicit path, relocated copy selected through the override with the bundled directory absent} is exhaustive, each in its own process lifetime, with identical content digests demanded; seeded scenarios interleave loads by name / absolute path / relative path (with chdir), changes of the override (also to a directory that does not exist, and back) and restarts; fixed scenarios cover recover-after-wrong-override, relative-path sequences, one more registered property-set type, and the package installed at other (simulated) locations; content digests are also compared across hash-seed cells; copy faults make one file of the relocated tree lost or unreadable (every file in the thorough tier) - the load must then fail or, if the file is outside the include closure, succeed with identical contents, and succeed identically after the fault is cleared and the process restarted. The self-consistency clause (every group finite plain numbers over its range, patterns re-readable, remaps well-formed and chain-free, uncertainty block square/symmetric/PSD/sized, basis descriptors with data) is an exhaustive sweep over the shipped data after loading. A real-file-system tier (scratch copy, new interpreters, real pgradd_DATA_DIR) cross-checks the in-memory stubs.',
      'Trusts the SimFS os/open shim (cross-checked against the real file system on every run); restart = fork of a process that never resolved the data directory; a change of the override after the first resolution may or may not be honoured (not stated by the property).',
      'deterministic simulation: in-memory file system + simulated environment + process restart by fork, copy-fault enumeration, exhaustive sweep of shipped data as invariant',
      'DESIGN.md 3.3')


ENGINES.append(
    {'name': 'work-list sim', 'path': '/verif/checks/c17_worklist.py',
     'serves_properties': ['C17'],
     'kind_free_text': 'real GenerateRxnNet + RDKit reactions (rules as reaction SMARTS or RING text) under a simulated step clock restricted to GenRxnNet.py/ReactionQuery.py; schedules perturbed by rule order, seed order and seed atom order; reference closure by BFS over hand-rolled labelled multigraphs'})

check('C17', 'work-list sim',
      'Schedule search over the work list: each (seed set, rule set) is run under several schedules (every order of the rules for the small exhaustive part; seeded rule/seed/atom orders and SMARTS-vs-RING rule texts for larger ones) under a deterministic step clock. Failing calls (unreadable rule text, a rule that fails midway on the seed) are placed between the schedules of a network: they must raise and must leave nothing behind. Every other call must terminate within a budget derived from the size of the reference closure (overruns are re-run at 20x before being reported), return each species once, contain every seed, equal the independent breadth-first closure exactly, and return the same set under every schedule. The part over seeds with <= 2 heavy atoms is exhaustive; the rest is sampling.',
      'Trusts the reference closure (netmodel.py) as the meaning of the rules on acyclic C/H/O species with explicit hydrogens; seeds are distinct (a set) and acyclic; the step clock does not see RDKit (C++), a hang inside it would surface as a harness error by the wall-clock kill-switch.',
      'deterministic simulation: simulated step clock (bounded liveness) + schedule perturbation of the work list, refinement against a BFS reference closure',
      'DESIGN.md 3.5')


def build(claimed):
    man = {
        'version': 1,
        'setup_cmd': '%s /verif/run_check.py --setup' % PY,
        'hooks': {
            'guard': 'PGRADD_VERIF',
            'enable': 'no source hooks were needed: every seam is reached by shadowing module globals (open/os of Library, Scheme, DataDir) plus, while a simulated disk is installed, the process-wide open / io.open / os.stat / os.listdir / os.getcwd for paths in the simulated name space, by replacing Parser.ParseState with a recording subclass, and by sys.monitoring; checks export PGRADD_VERIF=1 for their children but pgradd does not read it',
            'baseline_off_cmd': 'cd /repo && /venv/bin/python -m pytest -ra -q -p no:cacheprovider --timeout=900 --continue-on-collection-errors',
            'source_commits': [],
            'add_only': True,
        },
        'engines': [e for e in ENGINES
                    if set(e['serves_properties']) & set(claimed)],
        'checks': [CHECKS[p] for p in sorted(claimed)],
        'not_applicable': [{'property_id': p, 'reason': NA[p]}
                           for p in sorted(NA)],
        'notes': 'Technique family: deterministic simulation with fault injection. See DESIGN.md. Exit codes of every check: 0 held / 1 VIOLATION / 2 harness error. known_findings.json lists genuine defects found by the checks (open ones print KNOWN-FINDING lines; fixed ones suppress nothing).',
    }
    return man


if __name__ == '__main__':
    import sys
    claimed = [p for p in sorted(CHECKS)]
    unclaimed_building = [p for p in ('C12', 'C13', 'C14', 'C15', 'C17', 'C18')
                          if p not in CHECKS]
    man = build(claimed)
    for p in unclaimed_building:
        man['not_applicable'].append({
            'property_id': p,
            'reason': 'applicable (see DESIGN.md section 3) but its check is not built yet in this commit; not claimed until it is'})
    man['not_applicable'].sort(key=lambda e: e['property_id'])
    with open(os.path.join(HERE, 'MANIFEST.json'), 'w') as f:
        json.dump(man, f, indent=1)
    print('MANIFEST.json written: claimed', claimed)
