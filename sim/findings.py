"""Known findings (DESIGN 2.7).  The file is committed and never written at
run time.  An `open` entry turns violations with exactly that signature into
KNOWN-FINDING lines; a `fixed` entry suppresses nothing."""
import json
import os

from .core import VERIF_DIR

PATH = os.path.join(VERIF_DIR, 'known_findings.json')


def load():
    if not os.path.exists(PATH):
        return []
    with open(PATH) as f:
        return json.load(f)['findings']


def open_signatures(prop):
    out = {}
    for ent in load():
        if ent['property'] == prop and ent.get('status') == 'open':
            out[ent['signature']] = ent
    return out
