"""Deterministic simulation harness for pgradd (see /verif/DESIGN.md section 2)."""
