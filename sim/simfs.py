"""SimFS: an in-memory file system and environment behind the module globals
`open` and `os` of pgradd.GroupAdd.{Library,Scheme,DataDir} (DESIGN 2.2).

Every open / read / exists / isdir / getenv is appended to the event log of
the run (the "disk and environment" trace).  A fault plan decides which
accesses fail.
"""
import errno
import io
import os as _os
import posixpath


class SimFile(io.StringIO):
    def __init__(self, fs, path, text, fault=None):
        io.StringIO.__init__(self, text)
        self._fs = fs
        self._path = path
        self._fault = fault
        self._reads = 0
        self._tripped = False

    def read(self, *a):
        self._reads += 1
        ft = self._fault
        if ft is not None and not self._tripped and \
                (ft.get('sticky') or not ft.get('fired')) and \
                self._reads > ft.get('after_reads', 0):
            ft['fired'] = True
            self._tripped = True
            self._fs.fired(ft)
            self._fs.log.append(['read', self._path, 'fault:EIO'])
            raise _err(OSError, errno.EIO, 'Input/output error (injected)',
                       self._path)
        self._fs.log.append(['read', self._path])
        return io.StringIO.read(self, *a)


def hash_path(p):
    """A stable inode number for a path (not Python's salted hash)."""
    import hashlib
    return int(hashlib.sha256(p.encode('utf-8')).hexdigest()[:12], 16)


def os_stat_result(t):
    import os
    return os.stat_result(t)


def _err(cls, code, msg, path):
    e = cls(code, msg, path)
    e.simfs = True            # raised by the simulated disk
    return e


class SeamGap(BaseException):
    """pgradd used a part of `os` that SimFS does not simulate.  Not an
    Exception on purpose: it must not be taken for a failure of the code
    under test (an alarm), it ends the run as a harness error instead."""


# functions of os.path that only compute on the path text
_PURE_PATH = ('join', 'dirname', 'basename', 'normpath', 'split', 'splitext',
              'isabs', 'commonprefix', 'commonpath', 'normcase', 'splitdrive',
              'sep', 'pardir', 'curdir', 'extsep', 'altsep', 'pathsep',
              'defpath', 'devnull')


class SimPath(object):
    def __init__(self, fs):
        self._fs = fs

    def __getattr__(self, name):
        if name in _PURE_PATH:
            return getattr(posixpath, name)
        raise SeamGap('os.path.%s is not simulated by SimFS' % name)

    def realpath(self, p, **kw):
        return self.abspath(p)            # SimFS has no symbolic links

    def relpath(self, p, start=None):
        return posixpath.relpath(self.abspath(p),
                                 self.abspath(start or self._fs.cwd))

    def expanduser(self, p):
        if p == '~' or p.startswith('~/'):
            return self._fs.env.get('HOME', '/sim/home') + p[1:]
        return p

    def lexists(self, p):
        return self.exists(p)

    def islink(self, p):
        return False

    def samefile(self, a, b):
        return self.abspath(a) == self.abspath(b)

    def getmtime(self, p):
        return self._fs.os.stat(p).st_mtime

    getctime = getatime = getmtime

    def getsize(self, p):
        return self._fs.os.stat(p).st_size

    def abspath(self, p):
        if not posixpath.isabs(p):
            p = posixpath.join(self._fs.cwd, p)
        p = posixpath.normpath(p)
        # simulated install location of a real directory (the package may
        # live anywhere, e.g. below another directory of the same name)
        for real, sim in self._fs.path_map:
            if p == real or p.startswith(real + '/'):
                p = sim + p[len(real):]
                break
        return p

    def exists(self, p):
        p = self.abspath(p)
        r = p in self._fs.files or self._isdir(p)
        self._fs.log.append(['exists', p, r])
        return r

    def _isdir(self, p):
        p = p.rstrip('/') + '/'
        return any(f.startswith(p) for f in self._fs.files)

    def isdir(self, p):
        r = self._isdir(self.abspath(p))
        self._fs.log.append(['isdir', p, r])
        return r

    def isfile(self, p):
        return self.abspath(p) in self._fs.files


class SimEnviron(object):
    """os.environ of the simulated process (reads are logged)."""

    def __init__(self, fs):
        self._fs = fs

    def get(self, name, default=None):
        v = self._fs.env.get(name, default)
        self._fs.log.append(['getenv', name, v])
        return v

    def __getitem__(self, name):
        self._fs.log.append(['getenv', name, self._fs.env.get(name)])
        return self._fs.env[name]

    def __contains__(self, name):
        self._fs.log.append(['getenv', name, self._fs.env.get(name)])
        return name in self._fs.env

    def __iter__(self):
        return iter(sorted(self._fs.env))

    def __len__(self):
        return len(self._fs.env)

    def keys(self):
        return sorted(self._fs.env)

    def items(self):
        return sorted(self._fs.env.items())


class SimOS(object):
    sep = '/'
    pathsep = ':'
    linesep = '\n'
    curdir = '.'
    pardir = '..'
    extsep = '.'
    altsep = None
    name = 'posix'

    def __init__(self, fs):
        self._fs = fs
        self.path = SimPath(fs)
        self.environ = SimEnviron(fs)

    def __getattr__(self, name):
        raise SeamGap('os.%s is not simulated by SimFS' % name)

    def getenv(self, name, default=None):
        return self.environ.get(name, default)

    def getcwd(self):
        return self._fs.cwd

    def stat(self, p, **kw):
        """Size from the text, a fixed modification time per file (SimFS
        files never change during a run), regular file or directory."""
        import stat as _stat
        q = self.path.abspath(p)
        self._fs.log.append(['stat', q])
        if q in self._fs.files:
            mode, size = _stat.S_IFREG | 0o644, len(self._fs.files[q])
        elif self.path._isdir(q):
            mode, size = _stat.S_IFDIR | 0o755, 4096
        else:
            raise _err(FileNotFoundError, errno.ENOENT,
                       'No such file or directory', p)
        t = self._fs.mtimes.get(q, 1.0e9)
        return os_stat_result((mode, abs(hash_path(q)) % 10**9, 1, 1, 0, 0,
                               size, t, t, t))

    lstat = stat

    def access(self, p, mode=0):
        q = self.path.abspath(p)
        return q in self._fs.files or self.path._isdir(q)

    def fspath(self, p):
        return p if isinstance(p, str) else p.__fspath__()

    def listdir(self, p='.'):
        d = self.path.abspath(p).rstrip('/') + '/'
        names = sorted(set(f[len(d):].split('/', 1)[0]
                           for f in self._fs.files if f.startswith(d)))
        self._fs.log.append(['listdir', d, len(names)])
        if not names:
            raise _err(FileNotFoundError, errno.ENOENT,
                       'No such file or directory', p)
        return names


class SimFS(object):
    def __init__(self, files=None, env=None, cwd='/sim/cwd'):
        self.files = dict(files or {})
        self.env = dict(env or {})
        self.cwd = cwd
        self.log = []
        self.path_map = []        # [(real prefix, simulated prefix)]
        self.mtimes = {}          # path -> modification time (default 1e9)
        self.namespace = ['/sim', '/mnt/x']   # roots of the simulated disk
        self.env_names = ['pgradd_DATA_DIR']
        self.faults = []          # list of fault dicts (the plan)
        self.fired_counts = {}
        self.os = SimOS(self)

    def fired(self, ft):
        k = ft['kind']
        self.fired_counts[k] = self.fired_counts.get(k, 0) + 1

    def open(self, path, mode='r', *a, **kw):
        if any(c in mode for c in 'wax+'):
            raise _err(OSError, errno.EROFS, 'SimFS is read-only', path)
        p = self.os.path.abspath(path)
        for ft in self.faults:
            if ft.get('fired') and not ft.get('sticky'):
                continue
            if ft['path'] != p:
                continue
            if ft.get('skip', 0) > 0:
                ft['skip'] -= 1
                continue
            if ft['kind'] == 'EIO_read':
                self.log.append(['open', p, 'fault-armed:EIO_read'])
                if p not in self.files:
                    break
                return SimFile(self, p, self.files[p], ft)
            if ft.get('times', 1) <= 0:
                continue
            ft['times'] = ft.get('times', 1) - 1
            if ft['times'] <= 0:
                ft['fired'] = True
            self.fired(ft)
            self.log.append(['open', p, 'fault:' + ft['kind']])
            code = {'ENOENT': errno.ENOENT, 'EACCES': errno.EACCES,
                    'EIO': errno.EIO}[ft['kind']]
            exc = {'ENOENT': FileNotFoundError,
                   'EACCES': PermissionError}.get(ft['kind'], OSError)
            raise _err(exc, code, 'injected ' + ft['kind'], p)
        if p not in self.files:
            self.log.append(['open', p, 'ENOENT'])
            raise _err(FileNotFoundError, errno.ENOENT,
                       'No such file or directory', p)
        self.log.append(['open', p])
        return SimFile(self, p, self.files[p])

    # ------------------------------------------------------------ the seam

    def simulated(self, path):
        """The absolute simulated path if `path` lies in the simulated name
        space (relative paths do: the simulated process has a simulated
        current directory), else None."""
        try:
            p = path if isinstance(path, str) else _os.fspath(path)
        except TypeError:
            return None
        if not isinstance(p, str):
            return None
        q = self.os.path.abspath(p)
        for r in self.namespace:
            if q == r or q.startswith(r + '/'):
                return q
        return None

    def install(self):
        """Two layers.  (1) The module globals `open` and `os` of
        pgradd.GroupAdd.{Library,Scheme,DataDir} are shadowed: what the
        package does today goes through here and is logged.  (2) While
        installed, the process-wide entry points open / io.open / os.stat /
        os.lstat / os.listdir / os.getcwd and the environment variables of
        `env_names` answer from SimFS for paths in the simulated name space
        and pass everything else through: a refactoring of the package that
        reaches its files another way (io.open, pathlib, os.path functions
        imported by name) still meets the simulated disk instead of failing
        on the real one.  Returns an undo function."""
        import builtins
        from pgradd.GroupAdd import Library, Scheme, DataDir
        saved = []
        for mod, names in ((Library, ('open', 'os')), (Scheme, ('open', 'os')),
                           (DataDir, ('os',))):
            for n in names:
                saved.append((mod, n, mod.__dict__.get(n, None),
                              n in mod.__dict__))
                setattr(mod, n, self.open if n == 'open' else self.os)
        fs = self
        real_open, real_io_open = builtins.open, io.open
        real_stat, real_lstat = _os.stat, _os.lstat
        real_listdir, real_getcwd = _os.listdir, _os.getcwd

        def g_open(file, *a, **kw):
            q = fs.simulated(file) if not isinstance(file, int) else None
            if q is None:
                return real_open(file, *a, **kw)
            mode = a[0] if a else kw.get('mode', 'r')
            f = fs.open(q, mode)
            if 'b' in mode:
                return io.BytesIO(f.read().encode('utf-8'))
            return f

        def g_stat(path, *a, **kw):
            q = fs.simulated(path) if not isinstance(path, int) else None
            if q is None:
                return real_stat(path, *a, **kw)
            return fs.os.stat(q)

        def g_lstat(path, *a, **kw):
            q = fs.simulated(path)
            if q is None:
                return real_lstat(path, *a, **kw)
            return fs.os.stat(q)

        def g_listdir(path='.'):
            q = fs.simulated(path) if not isinstance(path, int) else None
            if q is None:
                return real_listdir(path)
            return fs.os.listdir(q)

        def g_getcwd():
            return fs.cwd

        builtins.open, io.open = g_open, g_open
        _os.stat, _os.lstat = g_stat, g_lstat
        _os.listdir, _os.getcwd = g_listdir, g_getcwd
        saved_env = dict((n, _os.environ.get(n)) for n in self.env_names)
        self._sync_env()
        global ACTIVE
        prev_active = ACTIVE
        ACTIVE = self

        def undo():
            global ACTIVE
            ACTIVE = prev_active
            builtins.open, io.open = real_open, real_io_open
            _os.stat, _os.lstat = real_stat, real_lstat
            _os.listdir, _os.getcwd = real_listdir, real_getcwd
            for n, v in saved_env.items():
                if v is None:
                    _os.environ.pop(n, None)
                else:
                    _os.environ[n] = v
            for mod, n, val, had in saved:
                if had:
                    setattr(mod, n, val)
                else:
                    delattr(mod, n)
        return undo

    def _sync_env(self):
        """The simulated values of `env_names` as real environment variables
        (for code that reads os.environ without the shadowed module)."""
        for n in self.env_names:
            v = self.env.get(n)
            if v is None:
                _os.environ.pop(n, None)
            else:
                _os.environ[n] = v

    def setenv(self, name, value):
        if value is None:
            self.env.pop(name, None)
        else:
            self.env[name] = value
        if ACTIVE is self:
            self._sync_env()


ACTIVE = None


def escaped_access(exc):
    """True if `exc` is a file-system error about a simulated path that did
    not come from SimFS: the code under test reached the real disk through
    an entry point the seam does not cover."""
    fs = ACTIVE
    if fs is None or not isinstance(exc, OSError) or \
            getattr(exc, 'simfs', False):
        return False
    name = getattr(exc, 'filename', None)
    return isinstance(name, str) and fs.simulated(name) is not None
