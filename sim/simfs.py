"""SimFS: an in-memory file system and environment behind the module globals
`open` and `os` of pgradd.GroupAdd.{Library,Scheme,DataDir} (DESIGN 2.2).

Every open / read / exists / isdir / getenv is appended to the event log of
the run (the "disk and environment" trace).  A fault plan decides which
accesses fail.
"""
import errno
import io
import posixpath


class SimFile(io.StringIO):
    def __init__(self, fs, path, text, fault=None):
        io.StringIO.__init__(self, text)
        self._fs = fs
        self._path = path
        self._fault = fault
        self._reads = 0
        self._tripped = False

    def read(self, *a):
        self._reads += 1
        ft = self._fault
        if ft is not None and not self._tripped and \
                (ft.get('sticky') or not ft.get('fired')) and \
                self._reads > ft.get('after_reads', 0):
            ft['fired'] = True
            self._tripped = True
            self._fs.fired(ft)
            self._fs.log.append(['read', self._path, 'fault:EIO'])
            raise OSError(errno.EIO, 'Input/output error (injected)',
                          self._path)
        self._fs.log.append(['read', self._path])
        return io.StringIO.read(self, *a)


def hash_path(p):
    """A stable inode number for a path (not Python's salted hash)."""
    import hashlib
    return int(hashlib.sha256(p.encode('utf-8')).hexdigest()[:12], 16)


def os_stat_result(t):
    import os
    return os.stat_result(t)


class SeamGap(BaseException):
    """pgradd used a part of `os` that SimFS does not simulate.  Not an
    Exception on purpose: it must not be taken for a failure of the code
    under test (an alarm), it ends the run as a harness error instead."""


# functions of os.path that only compute on the path text
_PURE_PATH = ('join', 'dirname', 'basename', 'normpath', 'split', 'splitext',
              'isabs', 'commonprefix', 'commonpath', 'normcase', 'splitdrive',
              'sep', 'pardir', 'curdir', 'extsep', 'altsep', 'pathsep',
              'defpath', 'devnull')


class SimPath(object):
    def __init__(self, fs):
        self._fs = fs

    def __getattr__(self, name):
        if name in _PURE_PATH:
            return getattr(posixpath, name)
        raise SeamGap('os.path.%s is not simulated by SimFS' % name)

    def realpath(self, p, **kw):
        return self.abspath(p)            # SimFS has no symbolic links

    def relpath(self, p, start=None):
        return posixpath.relpath(self.abspath(p),
                                 self.abspath(start or self._fs.cwd))

    def expanduser(self, p):
        if p == '~' or p.startswith('~/'):
            return self._fs.env.get('HOME', '/sim/home') + p[1:]
        return p

    def lexists(self, p):
        return self.exists(p)

    def islink(self, p):
        return False

    def samefile(self, a, b):
        return self.abspath(a) == self.abspath(b)

    def getmtime(self, p):
        return self._fs.os.stat(p).st_mtime

    getctime = getatime = getmtime

    def getsize(self, p):
        return self._fs.os.stat(p).st_size

    def abspath(self, p):
        if not posixpath.isabs(p):
            p = posixpath.join(self._fs.cwd, p)
        p = posixpath.normpath(p)
        # simulated install location of a real directory (the package may
        # live anywhere, e.g. below another directory of the same name)
        for real, sim in self._fs.path_map:
            if p == real or p.startswith(real + '/'):
                p = sim + p[len(real):]
                break
        return p

    def exists(self, p):
        p = self.abspath(p)
        r = p in self._fs.files or self._isdir(p)
        self._fs.log.append(['exists', p, r])
        return r

    def _isdir(self, p):
        p = p.rstrip('/') + '/'
        return any(f.startswith(p) for f in self._fs.files)

    def isdir(self, p):
        r = self._isdir(self.abspath(p))
        self._fs.log.append(['isdir', p, r])
        return r

    def isfile(self, p):
        return self.abspath(p) in self._fs.files


class SimEnviron(object):
    """os.environ of the simulated process (reads are logged)."""

    def __init__(self, fs):
        self._fs = fs

    def get(self, name, default=None):
        v = self._fs.env.get(name, default)
        self._fs.log.append(['getenv', name, v])
        return v

    def __getitem__(self, name):
        self._fs.log.append(['getenv', name, self._fs.env.get(name)])
        return self._fs.env[name]

    def __contains__(self, name):
        self._fs.log.append(['getenv', name, self._fs.env.get(name)])
        return name in self._fs.env

    def __iter__(self):
        return iter(sorted(self._fs.env))

    def __len__(self):
        return len(self._fs.env)

    def keys(self):
        return sorted(self._fs.env)

    def items(self):
        return sorted(self._fs.env.items())


class SimOS(object):
    sep = '/'
    pathsep = ':'
    linesep = '\n'
    curdir = '.'
    pardir = '..'
    extsep = '.'
    altsep = None
    name = 'posix'

    def __init__(self, fs):
        self._fs = fs
        self.path = SimPath(fs)
        self.environ = SimEnviron(fs)

    def __getattr__(self, name):
        raise SeamGap('os.%s is not simulated by SimFS' % name)

    def getenv(self, name, default=None):
        return self.environ.get(name, default)

    def getcwd(self):
        return self._fs.cwd

    def stat(self, p, **kw):
        """Size from the text, a fixed modification time per file (SimFS
        files never change during a run), regular file or directory."""
        import stat as _stat
        q = self.path.abspath(p)
        self._fs.log.append(['stat', q])
        if q in self._fs.files:
            mode, size = _stat.S_IFREG | 0o644, len(self._fs.files[q])
        elif self.path._isdir(q):
            mode, size = _stat.S_IFDIR | 0o755, 4096
        else:
            raise FileNotFoundError(errno.ENOENT, 'No such file or directory',
                                    p)
        t = self._fs.mtimes.get(q, 1.0e9)
        return os_stat_result((mode, abs(hash_path(q)) % 10**9, 1, 1, 0, 0,
                               size, t, t, t))

    lstat = stat

    def access(self, p, mode=0):
        q = self.path.abspath(p)
        return q in self._fs.files or self.path._isdir(q)

    def fspath(self, p):
        return p if isinstance(p, str) else p.__fspath__()

    def listdir(self, p='.'):
        d = self.path.abspath(p).rstrip('/') + '/'
        names = sorted(set(f[len(d):].split('/', 1)[0]
                           for f in self._fs.files if f.startswith(d)))
        self._fs.log.append(['listdir', d, len(names)])
        if not names:
            raise FileNotFoundError(errno.ENOENT, 'No such file or directory',
                                    p)
        return names


class SimFS(object):
    def __init__(self, files=None, env=None, cwd='/sim/cwd'):
        self.files = dict(files or {})
        self.env = dict(env or {})
        self.cwd = cwd
        self.log = []
        self.path_map = []        # [(real prefix, simulated prefix)]
        self.mtimes = {}          # path -> modification time (default 1e9)
        self.faults = []          # list of fault dicts (the plan)
        self.fired_counts = {}
        self.os = SimOS(self)

    def fired(self, ft):
        k = ft['kind']
        self.fired_counts[k] = self.fired_counts.get(k, 0) + 1

    def open(self, path, mode='r', *a, **kw):
        if any(c in mode for c in 'wax+'):
            raise OSError(errno.EROFS, 'SimFS is read-only', path)
        p = self.os.path.abspath(path)
        for ft in self.faults:
            if ft.get('fired') and not ft.get('sticky'):
                continue
            if ft['path'] != p:
                continue
            if ft.get('skip', 0) > 0:
                ft['skip'] -= 1
                continue
            if ft['kind'] == 'EIO_read':
                self.log.append(['open', p, 'fault-armed:EIO_read'])
                if p not in self.files:
                    break
                return SimFile(self, p, self.files[p], ft)
            if ft.get('times', 1) <= 0:
                continue
            ft['times'] = ft.get('times', 1) - 1
            if ft['times'] <= 0:
                ft['fired'] = True
            self.fired(ft)
            self.log.append(['open', p, 'fault:' + ft['kind']])
            code = {'ENOENT': errno.ENOENT, 'EACCES': errno.EACCES,
                    'EIO': errno.EIO}[ft['kind']]
            exc = {'ENOENT': FileNotFoundError,
                   'EACCES': PermissionError}.get(ft['kind'], OSError)
            raise exc(code, 'injected ' + ft['kind'], p)
        if p not in self.files:
            self.log.append(['open', p, 'ENOENT'])
            raise FileNotFoundError(errno.ENOENT, 'No such file or directory',
                                    p)
        self.log.append(['open', p])
        return SimFile(self, p, self.files[p])

    def install(self):
        """Shadow the module globals.  Returns an undo function."""
        from pgradd.GroupAdd import Library, Scheme, DataDir
        saved = []
        for mod, names in ((Library, ('open', 'os')), (Scheme, ('open', 'os')),
                           (DataDir, ('os',))):
            for n in names:
                saved.append((mod, n, mod.__dict__.get(n, None),
                              n in mod.__dict__))
                setattr(mod, n, self.open if n == 'open' else self.os)

        def undo():
            for mod, n, val, had in saved:
                if had:
                    setattr(mod, n, val)
                else:
                    delattr(mod, n)
        return undo
