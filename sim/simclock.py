"""SimClock: a deterministic simulated clock = number of Python LINE events
executed inside pgradd code (DESIGN 2.2).

Same input => same count.  A budget overrun raises StepBudgetExceeded, a
BaseException subclass, so the library's own `except Exception` handlers
cannot swallow it.
"""
import os
import sys

mon = sys.monitoring
TOOL = mon.DEBUGGER_ID


class StepBudgetExceeded(BaseException):
    pass


HOME_WINDOW = 3000


class SimClock(object):
    def __init__(self, roots=None, only_files=None):
        """roots: directory prefixes whose code is clocked (default: the
        pgradd package directory).  only_files: optional set of basenames
        to restrict the clock to (work-list sim)."""
        if roots is None:
            from .core import pgradd_dir
            roots = [pgradd_dir() + os.sep]
        self.roots = tuple(roots)
        self.only_files = set(only_files) if only_files else None
        self.steps = 0
        self.limit = float('inf')
        self.tripped = None
        self.armed = False
        self._home = None
        self._home_left = 0
        self._installed = False

    def _install(self):
        if self._installed:
            return
        if mon.get_tool(TOOL) is None:
            mon.use_tool_id(TOOL, 'pgradd-verif-simclock')
        mon.register_callback(TOOL, mon.events.LINE, self._on_line)
        # locations disabled by an earlier clock (other filter) come back
        mon.restart_events()
        self._installed = True

    def _on_line(self, code, line):
        fn = code.co_filename
        if not fn.startswith(self.roots) or code.co_name == '<module>':
            return mon.DISABLE
        if self.only_files is not None and \
                os.path.basename(fn) not in self.only_files:
            return mon.DISABLE
        if not self.armed:
            return None
        self.steps += 1
        if self.steps > self.limit:
            # Budget crossed.  Before raising, watch the next HOME_WINDOW
            # steps to find the frame that never returns during the window:
            # the home of the loop (stable signature of a hang, wherever in
            # the loop body the budget happened to trip).
            stack = self._stack()
            if self._home is None:
                self._home = stack
                self._home_left = HOME_WINDOW
                return None
            n = 0
            for a, b in zip(self._home, stack):
                if a[0] is not b[0]:
                    break
                n += 1
            self._home = self._home[:n]
            self._home_left -= 1
            if self._home_left > 0 and self._home:
                return None
            # lift the limit first: unwinding must not re-raise
            self.limit = float('inf')
            self.armed = False
            home = self._home[-1] if self._home else (None, os.path.basename(fn),
                                                      code.co_qualname)
            self.tripped = (home[1], home[2])
            self._home = None
            raise StepBudgetExceeded(self.tripped)
        return None

    def _stack(self):
        """Frames of clocked code on the stack, outermost first, as
        (frame, file basename, qualname); the frame objects are held so that
        their identity cannot be reused during the window."""
        out = []
        f = sys._getframe(2)
        while f is not None:
            c = f.f_code
            if c.co_filename.startswith(self.roots):
                out.append((f, os.path.basename(c.co_filename),
                            c.co_qualname))
            f = f.f_back
        out.reverse()
        return out

    def start(self, budget):
        self._install()
        self.steps = 0
        self.limit = budget
        self.tripped = None
        self._home = None
        self.armed = True
        mon.set_events(TOOL, mon.events.LINE)

    def stop(self):
        self.armed = False
        mon.set_events(TOOL, 0)
        return self.steps

    def close(self):
        self.stop()
        if self._installed:
            mon.register_callback(TOOL, mon.events.LINE, None)
            mon.free_tool_id(TOOL)
            self._installed = False
