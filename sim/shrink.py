"""Delta debugging (ddmin) over lists, used to minimise operation lists,
fault plans and worlds (DESIGN 2.5)."""


def ddmin(items, test, max_tests=400):
    """Return a 1-minimal sub-list of `items` for which test(sublist) is
    True.  test(items) must be True.  Order is preserved."""
    items = list(items)
    n = 2
    tests = 0
    while len(items) >= 2:
        chunk = max(1, len(items) // n)
        subsets = [items[i:i + chunk] for i in range(0, len(items), chunk)]
        reduced = False
        # try complements (remove one chunk)
        for i in range(len(subsets)):
            cand = [x for j, s in enumerate(subsets) if j != i for x in s]
            tests += 1
            if tests > max_tests:
                return items
            if cand and test(cand):
                items = cand
                n = max(n - 1, 2)
                reduced = True
                break
        if not reduced:
            if n >= len(items):
                break
            n = min(len(items), n * 2)
    # final single-element removal pass
    i = 0
    while i < len(items) and len(items) > 1:
        cand = items[:i] + items[i + 1:]
        tests += 1
        if tests > max_tests:
            break
        if test(cand):
            items = cand
        else:
            i += 1
    return items


def shrink_text(text, test, max_tests=600):
    """Shrink a string: remove lines, then tokens, then characters."""
    tests = [0]

    def t(s):
        tests[0] += 1
        return tests[0] <= max_tests and test(s)

    for sep in ('\n', ' ', ''):
        parts = text.split(sep) if sep else list(text)
        if len(parts) < 2:
            continue
        kept = ddmin(parts, lambda ps: t(sep.join(ps)),
                     max_tests=max(50, max_tests // 3))
        cand = sep.join(kept)
        if cand != text and test(cand):
            text = cand
    # contiguous-range removal (ddmin cannot drop a middle whose parts are
    # each needed by the intermediate candidates)
    import re
    toks = re.findall(r'\s+|[A-Za-z0-9_]+|.', text, re.S)
    budget = max_tests
    improved = True
    while improved and budget > 0 and len(toks) > 1:
        improved = False
        for length in range(len(toks) - 1, 0, -1):
            for start in range(0, len(toks) - length + 1):
                cand = ''.join(toks[:start] + toks[start + length:])
                budget -= 1
                if budget <= 0:
                    break
                if cand and test(cand):
                    toks = toks[:start] + toks[start + length:]
                    improved = True
                    break
            if improved or budget <= 0:
                break
    return ''.join(toks)
