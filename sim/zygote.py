"""Fresh-process oracle by fork of a pristine zygote (DESIGN 2.2).

A worker that has done nothing yet (a fork of the cell's main process, which
only imported pgradd) forks a reference server R0.  R0 keeps one sub-server
Z_L per *setup key* (= a library lineage): Z_L = fork(R0) + setup (load the
library, apply the lineage's merges) and nothing else.  A reference result is
computed by fork(Z_L) + exactly one chain; the child writes its canonical
result to a pipe and _exits.  Every level is therefore a bit-exact
continuation of "a process that only did import, setup, chain".
"""
import faulthandler
import multiprocessing as mp
import os
import signal
import sys
import traceback

MAX_SUBSERVERS = 10


def _send(conn, obj):
    conn.send(obj)


def _run_chain_forked(chain_fn, state, chain, timeout):
    """fork, run chain_fn(state, chain) in the child, return its result."""
    r, w = os.pipe()
    pid = os.fork()
    if pid == 0:
        code = 0
        try:
            os.close(r)
            # Not faulthandler.dump_traceback_later(): if the parent has a
            # watchdog pending, its thread does not exist in this child and
            # re-arming would wait for it forever.  SIGALRM's default action
            # ends the child; the parent then reports 'crash'.
            signal.signal(signal.SIGALRM, signal.SIG_DFL)
            signal.alarm(int(timeout))
            try:
                res = ('ok', chain_fn(state, chain))
            except BaseException as exc:
                res = ('error', ''.join(traceback.format_exception(
                    type(exc), exc, exc.__traceback__)))
            import pickle
            data = pickle.dumps(res)
            with os.fdopen(w, 'wb') as f:
                f.write(data)
        except BaseException:
            code = 3
        finally:
            os._exit(code)
    os.close(w)
    chunks = []
    with os.fdopen(r, 'rb') as f:
        while True:
            b = f.read(65536)
            if not b:
                break
            chunks.append(b)
    _, status = os.waitpid(pid, 0)
    data = b''.join(chunks)
    if not data:
        return ('crash', 'reference child died with status %r' % status)
    import pickle
    return pickle.loads(data)


def _subserver(conn, setup_fn, chain_fn, setup_arg, timeout):
    """Z_L: setup once, then fork one child per chain."""
    try:
        try:
            state = setup_fn(setup_arg)
            setup_err = None
        except BaseException as exc:
            state = None
            setup_err = ''.join(traceback.format_exception(
                type(exc), exc, exc.__traceback__))
        while True:
            try:
                msg = conn.recv()
            except EOFError:
                break
            if msg is None:
                break
            if setup_err is not None:
                conn.send(('setup-error', setup_err))
                continue
            conn.send(_run_chain_forked(chain_fn, state, msg, timeout))
    finally:
        os._exit(0)


def _server(conn, setup_fn, chain_fn, timeout):
    """R0: pristine; forks sub-servers on demand."""
    subs = {}          # key -> (conn, pid)
    order = []
    try:
        while True:
            try:
                msg = conn.recv()
            except EOFError:
                break
            if msg is None:
                break
            key, setup_arg, chain = msg
            if key not in subs:
                if len(subs) >= MAX_SUBSERVERS:
                    old = order.pop(0)
                    c, pid = subs.pop(old)
                    try:
                        c.send(None)
                        c.close()
                    except Exception:
                        pass
                    os.waitpid(pid, 0)
                a, b = mp.Pipe(duplex=True)
                pid = os.fork()
                if pid == 0:
                    a.close()
                    conn.close()
                    for c, _ in subs.values():
                        c.close()
                    _subserver(b, setup_fn, chain_fn, setup_arg, timeout)
                b.close()
                subs[key] = (a, pid)
                order.append(key)
            c, _ = subs[key]
            c.send(chain)
            try:
                conn.send(c.recv())
            except EOFError:
                conn.send(('crash', 'sub-server for %r died' % (key,)))
                subs.pop(key, None)
                if key in order:
                    order.remove(key)
    finally:
        for c, pid in subs.values():
            try:
                c.send(None)
                c.close()
            except Exception:
                pass
        os._exit(0)


class RefClient(object):
    """Created in a worker *before it does anything else*."""

    def __init__(self, setup_fn, chain_fn, timeout=120):
        a, b = mp.Pipe(duplex=True)
        sys.stdout.flush()
        sys.stderr.flush()
        pid = os.fork()
        if pid == 0:
            a.close()
            signal.signal(signal.SIGINT, signal.SIG_IGN)
            _server(b, setup_fn, chain_fn, timeout)
        b.close()
        self.conn = a
        self.pid = pid
        self.requests = 0

    def request(self, key, setup_arg, chain):
        self.requests += 1
        self.conn.send((key, setup_arg, chain))
        return self.conn.recv()

    def close(self):
        try:
            self.conn.send(None)
            self.conn.close()
        except Exception:
            pass
        try:
            os.waitpid(self.pid, 0)
        except Exception:
            pass
