"""Seeds, canonical values, event log, violations (DESIGN 2.1, 2.4, 2.7).

Nothing in here reads a clock or draws from a PRNG: logging must not perturb
the schedule.
"""
import hashlib
import json
import math
import os
import random
import traceback

VERIF_DIR = os.path.dirname(os.path.dirname(os.path.abspath(__file__)))


def H(*parts):
    """Derive a 63-bit integer from the given parts (seed derivation)."""
    h = hashlib.sha256(repr(parts).encode('utf-8')).digest()
    return int.from_bytes(h[:8], 'big') >> 1


def rng_for(*parts):
    return random.Random(H(*parts))


def _canon_float(x):
    x = float(x)
    if math.isnan(x):
        return 'nan'
    if math.isinf(x):
        return 'inf' if x > 0 else '-inf'
    return repr(x)


def canon(obj):
    """Reduce a value to a canonical JSON-able form (no addresses, no
    hash-order artefacts)."""
    if obj is None or isinstance(obj, (bool, str)):
        return obj
    if isinstance(obj, int):
        return obj
    if isinstance(obj, float):
        return _canon_float(obj)
    tname = type(obj).__module__ + '.' + type(obj).__name__
    if tname.startswith('numpy.'):
        import numpy as np
        if isinstance(obj, np.ndarray):
            return {'ndarray': [canon(v) for v in obj.tolist()]}
        if isinstance(obj, np.bool_):
            return bool(obj)
        if isinstance(obj, np.integer):
            return int(obj)
        if isinstance(obj, np.floating):
            return _canon_float(obj)
    if isinstance(obj, dict):
        return {str(k): canon(v) for k, v in sorted(obj.items(),
                                                    key=lambda kv: str(kv[0]))}
    if isinstance(obj, (list, tuple)):
        return [canon(v) for v in obj]
    if isinstance(obj, (set, frozenset)):
        return sorted((canon(v) for v in obj), key=lambda v: json.dumps(v, sort_keys=True))
    return {'obj': tname}


def dumps(obj):
    return json.dumps(canon(obj), sort_keys=True, separators=(',', ':'))


def digest(obj):
    return hashlib.sha256(dumps(obj).encode('utf-8')).hexdigest()


class EventLog(object):
    """Append-only list of canonical events; the digest identifies a run."""

    def __init__(self, run_seed=None):
        self.events = []
        if run_seed is not None:
            self.add('seed', run_seed=run_seed)

    def add(self, kind, **fields):
        self.events.append([kind, canon(fields)])

    def digest(self):
        return digest(self.events)

    def tail(self, n=20):
        return self.events[-n:]


def pgradd_dir():
    import pgradd
    return os.path.dirname(os.path.abspath(pgradd.__file__))


def exc_site(exc):
    """(file, qualified function) of the innermost pgradd frame of an
    exception's traceback -- stable under edits that only move lines."""
    base = pgradd_dir() + os.sep
    site = None
    tb = exc.__traceback__
    while tb is not None:
        code = tb.tb_frame.f_code
        if code.co_filename.startswith(base):
            site = (os.path.relpath(code.co_filename, base[:-1]),
                    code.co_qualname)
        tb = tb.tb_next
    return site or ('<outside pgradd>', '?')


def exc_class(exc):
    return type(exc).__name__


def violation(prop, oracle, cls, signature, detail):
    """A violation record.  `signature` is the stable identity used for
    known-finding matching and for 'same violation class' during shrinking."""
    return {'property': prop, 'oracle': oracle, 'class': cls,
            'signature': '%s|%s|%s' % (prop, oracle, signature),
            'detail': canon(detail)}


def rel_close(a, b, rel=1e-12, abs_=0.0):
    try:
        a = float(a)
        b = float(b)
    except (TypeError, ValueError):
        return False
    if math.isnan(a) or math.isnan(b):
        return math.isnan(a) and math.isnan(b)
    if a == b:
        return True
    return abs(a - b) <= max(rel * max(abs(a), abs(b)), abs_)


def canon_json(obj):
    """JSON-able copy for evidence files: like canon() but numbers stay
    numbers."""
    if obj is None or isinstance(obj, (bool, str, int)):
        return obj
    if isinstance(obj, float):
        return obj if math.isfinite(obj) else repr(obj)
    tname = type(obj).__module__
    if tname.startswith('numpy'):
        return canon_json(obj.tolist())
    if isinstance(obj, dict):
        return {str(k): canon_json(v) for k, v in obj.items()}
    if isinstance(obj, (list, tuple)):
        return [canon_json(v) for v in obj]
    if isinstance(obj, (set, frozenset)):
        return sorted(canon_json(v) for v in obj)
    return repr(obj)
