"""Batch runner (DESIGN 2.8): fork-based process pool, per-task wall-clock
kill-switch (a kill is a harness error, never a pass), ordered results."""
import concurrent.futures as cf
import faulthandler
import multiprocessing as mp
import os
import sys
import time
import traceback


class HarnessError(Exception):
    pass


_CHECK = None
_WORKER_READY = False


def _worker_init(check_name, init_args):
    global _CHECK, _WORKER_READY
    import importlib
    _CHECK = importlib.import_module('checks.' + check_name)
    if hasattr(_CHECK, 'worker_init'):
        _CHECK.worker_init(*init_args)
    _WORKER_READY = True


def _worker_run(task, timeout):
    faulthandler.dump_traceback_later(timeout, exit=True)
    try:
        t0 = time.time()
        try:
            if getattr(_CHECK, 'ISOLATE_TASKS', False):
                # one task = one simulated process lifetime: it runs in a
                # fork of this (initialised, otherwise unused) worker, so
                # what a task sees never depends on which tasks the worker
                # ran before
                from sim.zygote import _run_chain_forked
                kind, val = _run_chain_forked(
                    lambda st, t: _CHECK.run_task(t), None, task,
                    max(5, int(timeout) - 5))
                if kind != 'ok':
                    return {'harness_error': 'task %r: %s: %s'
                            % (task.get('id'), kind, val),
                            'task': task.get('id')}
                out = val
            else:
                out = _CHECK.run_task(task)
        except BaseException as exc:  # harness failure, classified apart
            return {'harness_error': ''.join(
                traceback.format_exception(type(exc), exc, exc.__traceback__)),
                'task': task.get('id')}
        return {'results': out, 'wall': time.time() - t0,
                'task': task.get('id')}
    finally:
        faulthandler.cancel_dump_traceback_later()


def run_tasks(check_name, tasks, workers, task_timeout=300, init_args=(),
              batch_timeout=None, progress=None):
    """Run tasks on a pool of forked workers.  Returns results in task
    order.  Raises HarnessError when a worker dies, a task raises outside
    the check's own classification, or the batch wall cap is exceeded."""
    if workers <= 1:
        _worker_init(check_name, init_args)
        outs = []
        for task in tasks:
            outs.append(_worker_run(task, task_timeout))
            if 'harness_error' in outs[-1]:
                raise HarnessError(outs[-1]['harness_error'])
        return outs
    ctx = mp.get_context('fork')
    t0 = time.time()
    outs = [None] * len(tasks)
    pool = cf.ProcessPoolExecutor(max_workers=workers, mp_context=ctx,
                                  initializer=_worker_init,
                                  initargs=(check_name, init_args))
    try:
        futs = {pool.submit(_worker_run, task, task_timeout): i
                for i, task in enumerate(tasks)}
        try:
            done = 0
            for fut in cf.as_completed(futs, timeout=batch_timeout):
                i = futs[fut]
                try:
                    outs[i] = fut.result()
                except cf.process.BrokenProcessPool as exc:
                    raise HarnessError(
                        'worker died (wall-clock kill-switch or crash) in '
                        'task %r: %s' % (tasks[i].get('id'), exc))
                if 'harness_error' in outs[i]:
                    raise HarnessError(outs[i]['harness_error'])
                done += 1
                if progress and done % progress == 0:
                    sys.stderr.write('  .. %d/%d tasks, %.0fs\n'
                                     % (done, len(tasks), time.time() - t0))
        except cf.TimeoutError:
            for f in futs:
                f.cancel()
            raise HarnessError('batch wall cap %ss exceeded' % batch_timeout)
    except BaseException:
        pool.shutdown(wait=False, cancel_futures=True)
        for p in list((getattr(pool, '_processes', None) or {}).values()):
            try:
                p.kill()
            except Exception:
                pass
        raise
    pool.shutdown(wait=True)
    return outs
