#!/usr/bin/env python3
"""Seeded-change bookkeeping.

  tools_seeded.py import <prop> <letter> <src_dir> <id>   verify a sub-agent's
        change in a scratch worktree (tests pass, demo fails with / passes
        without) and keep it as /verif/seeded/<id>/
  tools_seeded.py run <id> [tier]     apply to /repo, run the property's
        check, undo; prints the verdict
  tools_seeded.py control <name> [props]   a change that keeps the properties
        (controls/<name>.diff): tests and checks must stay quiet with it
"""
import json
import os
import shutil
import subprocess
import sys
import time

HERE = os.path.dirname(os.path.abspath(__file__))
PY = '/venv/bin/python'


def sh(cmd, cwd=None, env=None, timeout=1800):
    e = dict(os.environ)
    e.update(env or {})
    p = subprocess.run(cmd, shell=True, cwd=cwd, env=e, timeout=timeout,
                       stdout=subprocess.PIPE, stderr=subprocess.STDOUT,
                       text=True)
    return p.returncode, p.stdout


def do_import(prop, letter, src, sid):
    wt = '/tmp/verify-%s' % sid
    sh('git -C /repo worktree remove --force %s' % wt)
    rc, out = sh('git -C /repo worktree add --detach %s HEAD -q' % wt)
    assert rc == 0, out
    env = {'PYTHONPATH': wt}
    try:
        diff = os.path.join(src, 'mutation_%s.diff' % letter)
        demo = os.path.join(src, 'demo_%s.py' % letter)
        notes = os.path.join(src, 'notes_%s.md' % letter)
        shutil.copy(demo, os.path.join(wt, 'demo.py'))
        # (a demo may start fresh interpreters that import it by its name)
        shutil.copy(demo, os.path.join(wt, os.path.basename(demo)))
        rc0, out0 = sh('%s demo.py' % PY, cwd=wt, env=env, timeout=900)
        rc, out = sh('git apply %s' % diff, cwd=wt)
        assert rc == 0, 'patch does not apply: ' + out
        rct, outt = sh('%s -m pytest -q -p no:cacheprovider 2>&1 | tail -3'
                       % PY, cwd=wt, env=env, timeout=1800)
        rc1, out1 = sh('%s demo.py' % PY, cwd=wt, env=env, timeout=900)
        ok = rc0 == 0 and rc1 != 0 and '41 passed' in outt
        print('clean demo rc=%d, mutated demo rc=%d, tests: %s'
              % (rc0, rc1, outt.strip().splitlines()[-1]))
        if not ok:
            print('NOT KEPT')
            print(out0[-600:])
            print(out1[-600:])
            return 1
        dst = os.path.join(HERE, 'seeded', sid)
        os.makedirs(dst, exist_ok=True)
        shutil.copy(diff, os.path.join(dst, 'patch.diff'))
        shutil.copy(demo, os.path.join(dst, 'demo.py'))
        if os.path.exists(notes):
            shutil.copy(notes, os.path.join(dst, 'notes.md'))
        meta = {'id': sid, 'property': prop,
                'source': 'independent sub-agent given only the property '
                          'text and a scratch worktree',
                'needs_to_manifest': open(notes).read()[:1500]
                if os.path.exists(notes) else '',
                'confirmed': {
                    'clean_demo_exit': rc0, 'mutated_demo_exit': rc1,
                    'tests_with_change': outt.strip().splitlines()[-1],
                    'mutated_demo_output_tail': out1[-400:],
                    'ran': ['git apply patch.diff (scratch worktree)',
                            'pytest -q -p no:cacheprovider',
                            'python demo.py (with and without the change)']},
                'checks': {}}
        with open(os.path.join(dst, 'meta.json'), 'w') as f:
            json.dump(meta, f, indent=1)
        print('kept as', dst)
        return 0
    finally:
        sh('git -C /repo worktree remove --force %s' % wt)


def do_run(sid, tier='quick', extra_env=None, in_repo=False):
    """in_repo=True: apply to /repo itself and undo afterwards (as the
    brief describes).  Default: a scratch worktree of /repo's HEAD with the
    change applied, put first on PYTHONPATH -- the checks import pgradd from
    wherever it resolves -- so that /repo stays untouched while background
    runs are using it."""
    dst = os.path.join(HERE, 'seeded', sid)
    meta = json.load(open(os.path.join(dst, 'meta.json')))
    prop = meta['property']
    patch = os.path.join(dst, 'patch.diff')
    t0 = time.time()
    if in_repo:
        rc, out = sh('git -C /repo diff --quiet')
        assert rc == 0, '/repo is dirty'
        rc, out = sh('git -C /repo apply %s' % patch)
        if rc != 0:
            print('==> %s: patch no longer applies: %s' % (sid, out[-300:]))
            return 4
        try:
            rc, out = sh('timeout 3000 %s %s/run_check.py %s --tier %s 2>&1 '
                         '| grep -v "^here"' % (PY, HERE, prop, tier),
                         cwd=HERE, env=extra_env, timeout=3200)
        finally:
            sh('git -C /repo checkout -- .')
    else:
        wt = '/tmp/seedrun-%s-%d' % (sid, os.getpid())
        sh('git -C /repo worktree remove --force %s' % wt)
        rc, out = sh('git -C /repo worktree add --detach %s HEAD -q' % wt)
        assert rc == 0, out
        try:
            rc, out = sh('git apply %s' % patch, cwd=wt)
            if rc != 0:
                print('==> %s: patch no longer applies: %s'
                      % (sid, out[-300:]))
                return 4
            env = dict(extra_env or {})
            env['PYTHONPATH'] = wt
            env['VERIF_EVIDENCE_DIR'] = '/tmp/seedrun-evidence'
            rc, out = sh('timeout 3000 %s %s/run_check.py %s --tier %s 2>&1 '
                         '| grep -v "^here"' % (PY, HERE, prop, tier),
                         cwd=HERE, env=env, timeout=3200)
        finally:
            sh('git -C /repo worktree remove --force %s' % wt)
    lines = [l for l in out.splitlines()
             if l.startswith(('VIOLATION', '  signature', 'KNOWN', 'HARNESS'))
             or 'done in' in l]
    detected = any(l.startswith('VIOLATION') for l in lines)
    harness = any(l.startswith('HARNESS') for l in lines) and not detected
    print('\n'.join(lines[:14]))
    print('==> %s %s: %s (%.0fs)' % (sid, prop, 'DETECTED' if detected
                                     else ('HARNESS-ERROR (not judged)'
                                           if harness else 'MISSED'),
                                     time.time() - t0))
    meta['checks'][tier] = {
        'detected': detected,
        'signatures': [l.split('signature: ')[1] for l in lines
                       if 'signature: ' in l][:8],
        'wall_s': round(time.time() - t0),
        'verif_commit': sh('git -C %s rev-parse --short HEAD' % HERE)[1].strip()}
    with open(os.path.join(dst, 'meta.json'), 'w') as f:
        json.dump(meta, f, indent=1)
    return 0 if detected else 3


def do_control(name, props=None, tier='quick'):
    """A change that keeps every property (controls/<name>.diff): the test
    suite and every check must pass with it applied (scratch worktree)."""
    patch = os.path.join(HERE, 'controls', name + '.diff')
    props = props or ['C09', 'C12', 'C13', 'C14', 'C15', 'C17', 'C18']
    wt = '/tmp/control-%s-%d' % (name, os.getpid())
    sh('git -C /repo worktree remove --force %s' % wt)
    rc, out = sh('git -C /repo worktree add --detach %s HEAD -q' % wt)
    assert rc == 0, out
    bad = 0
    try:
        rc, out = sh('git apply %s' % patch, cwd=wt)
        assert rc == 0, 'control does not apply: ' + out
        env = {'PYTHONPATH': wt, 'VERIF_EVIDENCE_DIR': '/tmp/seedrun-evidence'}
        rc, out = sh('%s -m pytest -q -p no:cacheprovider 2>&1 | tail -1'
                     % PY, cwd=wt, env=env)
        print('tests with the control applied:', out.strip())
        for prop in props:
            rc, out = sh('timeout 3000 %s %s/run_check.py %s --tier %s 2>&1'
                         % (PY, HERE, prop, tier), cwd=HERE, env=env,
                         timeout=3200)
            alarm = rc != 0 or 'VIOLATION' in out
            bad += alarm
            print('==> control %s %s: %s (exit %d)'
                  % (name, prop, 'ALARM' if alarm else 'quiet', rc))
    finally:
        sh('git -C /repo worktree remove --force %s' % wt)
    return 1 if bad else 0


if __name__ == '__main__':
    if sys.argv[1] == 'control':
        sys.exit(do_control(sys.argv[2], sys.argv[3:] or None))
    if sys.argv[1] == 'import':
        sys.exit(do_import(*sys.argv[2:6]))
    if sys.argv[1] == 'run':
        sys.exit(do_run(sys.argv[2], *(sys.argv[3:4]),
                        in_repo='--in-repo' in sys.argv))
    if sys.argv[1] == 'all':
        rcs = {}
        for sid in sorted(os.listdir(os.path.join(HERE, 'seeded'))):
            rcs[sid] = do_run(sid)
        print(json.dumps(rcs, indent=1))
