"""Reference model of reaction-network closure (DESIGN 3.5).

Species = hand-rolled labelled multigraph: heavy atoms with an element and a
hydrogen count, bond orders between heavy atoms; the lone hydrogen atom is
the species 'H'.  Radical count is derived (default valence - bond orders -
hydrogens).  Rules are graph edits.  Identity = canonical form by exhaustive
relabelling of the heavy atoms (<= 5).  No pgradd code; RDKit is used only
to parse a seed SMILES into the graph and to read back returned species.
"""
from itertools import permutations

VALENCE = {'C': 4, 'O': 2, 'H': 1, 'N': 3, 'S': 2, 'P': 3}

H_ATOM = ('H',)


def canon(atoms, bonds):
    """atoms: list of (element, nH); bonds: dict {(i, j): order}, i < j."""
    n = len(atoms)
    if n == 0:
        return H_ATOM
    best = None
    for perm in permutations(range(n)):
        # perm[new] = old
        lab = tuple(atoms[o] for o in perm)
        inv = dict((o, k) for k, o in enumerate(perm))
        bl = tuple(sorted((min(inv[i], inv[j]), max(inv[i], inv[j]), o)
                          for (i, j), o in bonds.items()))
        key = (lab, bl)
        if best is None or key < best:
            best = key
    return best


def components(atoms, bonds):
    n = len(atoms)
    adj = dict((i, set()) for i in range(n))
    for (i, j) in bonds:
        adj[i].add(j)
        adj[j].add(i)
    seen = set()
    comps = []
    for s in range(n):
        if s in seen:
            continue
        comp = []
        stack = [s]
        seen.add(s)
        while stack:
            x = stack.pop()
            comp.append(x)
            for y in adj[x]:
                if y not in seen:
                    seen.add(y)
                    stack.append(y)
        comps.append(sorted(comp))
    out = []
    for comp in comps:
        idx = dict((o, k) for k, o in enumerate(comp))
        a = [atoms[o] for o in comp]
        b = dict(((idx[i], idx[j]), o) for (i, j), o in bonds.items()
                 if i in idx)
        out.append((a, b))
    return out


# what a formal charge allows: the valences of the isoelectronic neutral
# element (O- like F, N+ like C, ...); an atom above the largest of them
# cannot be part of a species
CHARGED_MAX = {('O', -1): 1, ('O', 1): 3, ('N', 1): 4, ('N', -1): 2,
               ('C', 1): 3, ('C', -1): 3, ('S', 1): 7, ('S', -1): 1,
               ('P', 1): 4, ('P', -1): 6}


def valence_ok(atoms, bonds):
    # like the package's filter: within the default valence of the element
    # whatever the formal charge, and within what the charge allows
    tot = [a[1] for a in atoms]
    for (i, j), o in bonds.items():
        tot[i] += o
        tot[j] += o
    for t, a in zip(tot, atoms):
        if t > VALENCE[a[0]]:
            return False
        q = a[2] if len(a) > 2 else 0
        if q and t > CHARGED_MAX.get((a[0], q), VALENCE[a[0]]):
            return False
    return True


def from_canon(c):
    if c == H_ATOM:
        return [], {}
    lab, bl = c
    return list(lab), dict(((i, j), o) for i, j, o in bl)


# ------------------------------------------------------------------ rules
# each rule: species (atoms, bonds) -> list of product lists [(atoms,bonds)]

def _xh_scission(elem):
    def rule(atoms, bonds):
        out = []
        for i, at in enumerate(atoms):
            e, h = at[0], at[1]
            if e == elem and h > 0:
                a = list(atoms)
                a[i] = (e, h - 1) + tuple(at[2:])
                out.append([(a, dict(bonds)), ([], {})])
        return out
    return rule


def _xy_scission(e1, e2):
    def rule(atoms, bonds):
        out = []
        for (i, j), o in bonds.items():
            if o == 1 and sorted((atoms[i][0], atoms[j][0])) == \
                    sorted((e1, e2)):
                b = dict(bonds)
                del b[(i, j)]
                out.append(components(list(atoms), b))
        return out
    return rule


def _cc_order(frm, to):
    def rule(atoms, bonds):
        out = []
        for (i, j), o in bonds.items():
            if o == frm and atoms[i][0] == 'C' and atoms[j][0] == 'C':
                b = dict(bonds)
                b[(i, j)] = to
                out.append([(list(atoms), b)])
        return out
    return rule


RULES = {
    'CH': {'smarts': '[C:1][H:2]>>[C:1].[H:2]', 'fn': _xh_scission('C'),
           'ring': 'rule CH{ reactant r1{ C? labeled c1 H labeled h1 single '
                   'bond to c1 } break bond (c1, h1) increase number of '
                   'radical (c1) increase number of radical (h1) }'},
    'CC': {'smarts': '[C:1][C:2]>>[C:1].[C:2]', 'fn': _xy_scission('C', 'C'),
           'ring': 'rule CC{ reactant r1{ C? labeled c1 C? labeled c2 single '
                   'bond to c1 } break bond (c1, c2) increase number of '
                   'radical (c1) increase number of radical (c2) }'},
    'OH': {'smarts': '[O:1][H:2]>>[O:1].[H:2]', 'fn': _xh_scission('O'),
           'ring': 'rule OH{ reactant r1{ O? labeled o1 H labeled h1 single '
                   'bond to o1 } break bond (o1, h1) increase number of '
                   'radical (o1) increase number of radical (h1) }'},
    'CO': {'smarts': '[C:1][O:2]>>[C:1].[O:2]', 'fn': _xy_scission('C', 'O'),
           'ring': 'rule CO{ reactant r1{ C? labeled c1 O? labeled o1 single '
                   'bond to c1 } break bond (c1, o1) increase number of '
                   'radical (c1) increase number of radical (o1) }'},
    'CCup': {'smarts': '[C:1][C:2]>>[C:1]=[C:2]', 'fn': _cc_order(1, 2),
             'ring': None},
    'CCdown': {'smarts': '[C:1]=[C:2]>>[C:1][C:2]', 'fn': _cc_order(2, 1),
               'ring': None},
}
def _cc_any_down(atoms, bonds):
    # 'decrease bond order' on a C-C bond of any order; order 0 = no bond
    out = []
    for (i, j), o in bonds.items():
        if atoms[i][0] == 'C' and atoms[j][0] == 'C':
            b = dict(bonds)
            if o == 1:
                del b[(i, j)]
                out.append(components(list(atoms), b))
            else:
                b[(i, j)] = o - 1
                out.append([(list(atoms), b)])
    return out


RULES['CCup']['ring'] = (
    'rule CCup{ reactant r1{ C? labeled c1 {has >0 radical electrons} '
    'C? labeled c2 single bond to c1 {has >0 radical electrons} } '
    'increase bond order (c1, c2) decrease number of radical (c1) decrease '
    'number of radical (c2) }')
RULES['CCdown']['ring'] = (
    'rule CCdown{ reactant r1{ C? labeled c1 C? labeled c2 double bond to c1 '
    '} decrease bond order (c1, c2) increase number of radical (c1) increase '
    'number of radical (c2) }')
RULES['CCanydown'] = {
    'smarts': None, 'fn': _cc_any_down,
    'ring': 'rule CCanydown{ reactant r1{ C? labeled c1 C? labeled c2 any '
            'bond to c1 } decrease bond order (c1, c2) increase number of '
            'radical (c1) increase number of radical (c2) }'}
def _ch_scission_closed_shell(atoms, bonds):
    # C-H scission only at carbons without radical electrons (a RING atom
    # written without a suffix is neutral and radical-free)
    tot = [a[1] for a in atoms]
    for (i, j), o in bonds.items():
        tot[i] += o
        tot[j] += o
    out = []
    for i, at in enumerate(atoms):
        if at[0] == 'C' and at[1] > 0 and tot[i] == VALENCE['C'] and \
                (len(at) < 3 or at[2] == 0):
            a = list(atoms)
            a[i] = (at[0], at[1] - 1) + tuple(at[2:])
            out.append([(a, dict(bonds)), ([], {})])
    return out


for _name, _pre in (('CHclosed', ''), ('CHclosedNonring', 'nonringatom ')):
    RULES[_name] = {
        'smarts': None, 'fn': _ch_scission_closed_shell,
        'ring': 'rule %s{ reactant r1{ %sC labeled c1 H labeled h1 single '
                'bond to c1 } break bond (c1, h1) increase number of radical '
                '(c1) increase number of radical (h1) }' % (_name, _pre)}
def _allyl_shift(atoms, bonds):
    # C1=C2-C3  ->  C1-C2=C3 (a pure bond-order rule; on the allyl radical
    # it gives the reactant back)
    out = []
    nb = {}
    for (i, j), o in bonds.items():
        nb.setdefault(i, []).append((j, o))
        nb.setdefault(j, []).append((i, o))
    for c2 in nb:
        if atoms[c2][0] != 'C':
            continue
        for c1, o1 in nb[c2]:
            if o1 != 2 or atoms[c1][0] != 'C':
                continue
            for c3, o3 in nb[c2]:
                if c3 == c1 or o3 != 1 or atoms[c3][0] != 'C':
                    continue
                b = dict(bonds)
                b[(min(c1, c2), max(c1, c2))] = 1
                b[(min(c2, c3), max(c2, c3))] = 2
                out.append([(list(atoms), b)])
    return out


def _ccc_break_first(atoms, bonds):
    # pattern c1-c2-c3 (single bonds), break (c1, c2): a C-C single bond
    # whose second carbon has another carbon neighbour by a single bond
    out = []
    nb = {}
    for (i, j), o in bonds.items():
        if o == 1 and atoms[i][0] == 'C' and atoms[j][0] == 'C':
            nb.setdefault(i, []).append(j)
            nb.setdefault(j, []).append(i)
    for c2 in nb:
        for c1 in nb[c2]:
            if any(c3 != c1 for c3 in nb[c2]):
                b = dict(bonds)
                del b[(min(c1, c2), max(c1, c2))]
                out.append(components(list(atoms), b))
    return out


RULES['allylShift'] = {
    'smarts': '[C:1]=[C:2][C:3]>>[C:1][C:2]=[C:3]', 'fn': _allyl_shift,
    'ring': None}
RULES['CCCbreakFirst'] = {
    'smarts': None, 'fn': _ccc_break_first,
    'ring': 'rule CCCbreakFirst{ reactant r1{ C? labeled c1 C? labeled c2 '
            'single bond to c1 C? labeled c3 single bond to c2 } break bond '
            '(c1, c2) increase number of radical (c1) increase number of '
            'radical (c2) }'}


def _any_order(frm, to):
    # wildcard atoms: any bond between heavy atoms.  The bonds to hydrogen
    # match as well, but a hydrogen with a double bond exceeds its valence, so
    # those products never pass the filter.
    def rule(atoms, bonds):
        out = []
        for (i, j), o in bonds.items():
            if o == frm:
                b = dict(bonds)
                b[(i, j)] = to
                out.append([(list(atoms), b)])
        return out
    return rule


def _any_break(atoms, bonds):
    # wildcard scission: every single bond, those to hydrogen included
    out = []
    for (i, j), o in bonds.items():
        if o == 1:
            b = dict(bonds)
            del b[(i, j)]
            out.append(components(list(atoms), b))
    for i, at in enumerate(atoms):
        if at[1] > 0:
            a = list(atoms)
            a[i] = (at[0], at[1] - 1) + tuple(at[2:])
            out.append([(a, dict(bonds)), ([], {})])
    return out


RULES['ANYup'] = {'smarts': '[*:1]-[*:2]>>[*:1]=[*:2]',
                  'fn': _any_order(1, 2), 'ring': None}
RULES['ANYdown'] = {'smarts': '[*:1]=[*:2]>>[*:1]-[*:2]',
                    'fn': _any_order(2, 1), 'ring': None}
RULES['ANYbreak'] = {'smarts': '[*:1]-[*:2]>>[*:1].[*:2]',
                     'fn': _any_break, 'ring': None}
RULE_NAMES = sorted(RULES)


def closure(seed_canons, rule_names, cap=4000):
    """Breadth-first closure; returns the set of canonical species, or None
    if it exceeds cap (treated as 'not finite within bounds')."""
    seen = set(seed_canons)
    frontier = list(seed_canons)
    fns = [RULES[r]['fn'] for r in rule_names]
    while frontier:
        nxt = []
        for c in frontier:
            atoms, bonds = from_canon(c)
            if c == H_ATOM:
                continue
            for fn in fns:
                for prods in fn(atoms, bonds):
                    for (a, b) in prods:
                        if not valence_ok(a, b):
                            continue
                        cc = canon(a, b)
                        if cc not in seen:
                            seen.add(cc)
                            nxt.append(cc)
                            if len(seen) > cap:
                                return None
        frontier = nxt
    return seen


# --------------------------------------------------- RDKit <-> model graphs

def mol_to_canon(mol):
    """Read an RDKit molecule (hydrogens explicit or implicit) into the
    model's canonical form.  Returns None for things outside the model
    (charges, elements outside C/H/O/N, H-H bonds, fractional orders)."""
    heavy = {}
    atoms = []
    for a in mol.GetAtoms():
        if a.GetSymbol() == 'H':
            if a.GetFormalCharge() != 0:
                return None
            continue
        if a.GetSymbol() not in VALENCE:
            return None
        heavy[a.GetIdx()] = len(atoms)
        atoms.append((a.GetSymbol(), a.GetTotalNumHs(includeNeighbors=True),
                      a.GetFormalCharge()))
    bonds = {}
    for b in mol.GetBonds():
        i, j = b.GetBeginAtomIdx(), b.GetEndAtomIdx()
        if i in heavy and j in heavy:
            o = b.GetBondTypeAsDouble()
            if o != int(o) or o < 1:
                return None
            bonds[(min(heavy[i], heavy[j]), max(heavy[i], heavy[j]))] = int(o)
        elif i not in heavy and j not in heavy:
            return None              # H-H
    if not atoms:
        if mol.GetNumAtoms() != 1:
            return None
        return H_ATOM
    if len(atoms) > 6:
        return None
    return canon(atoms, bonds)


def show(c):
    if c == H_ATOM:
        return '[H]'
    lab, bl = c
    return '%s|%s' % (','.join('%s%s%s' % (a[0], 'H%d' % a[1] if a[1] else '',
                                           '%+d' % a[2] if len(a) > 2 and a[2]
                                           else '') for a in lab),
                      ','.join('%d%s%d' % (i, '-=#'[o - 1], j)
                               for i, j, o in bl))
