"""Operations on real pgradd objects with canonical outcomes, and read-only
state digests (DESIGN 2.4).  Used by the history sim (C15), its fresh-process
reference children, and the locate sim (C14)."""
import io
import os
import warnings
from contextlib import redirect_stdout

from sim import core

FIXTURES = os.path.join(core.VERIF_DIR, 'fixtures')


def quiet():
    from rdkit import RDLogger
    RDLogger.DisableLog('rdApp.*')


class Recorder(object):
    """Run a callable; capture result / exception / warnings canonically."""

    def __call__(self, fn, *a, **kw):
        out = {}
        val = None
        with redirect_stdout(io.StringIO()), \
                warnings.catch_warnings(record=True) as wlist:
            warnings.simplefilter('always')
            try:
                val = fn(*a, **kw)
                out['ok'] = True
            except Exception as exc:
                from sim import simfs
                for e in (exc, exc.__context__, exc.__cause__):
                    if e is not None and simfs.escaped_access(e):
                        raise simfs.SeamGap(
                            'the code under test reached the real file '
                            'system for the simulated path %r (%s)'
                            % (e.filename, type(e).__name__))
                out['exc'] = type(exc).__name__
                out['site'] = list(core.exc_site(exc))
                out['msg'] = str(exc)[:200]
                ctx = exc.__context__
                if ctx is not None:
                    out['context'] = '%s: %s' % (type(ctx).__name__,
                                                 str(ctx)[:160])
                    if ctx.__context__ is not None:
                        out['context2'] = '%s: %s' % (
                            type(ctx.__context__).__name__,
                            str(ctx.__context__)[:160])
                groups = getattr(exc, 'groups', None)
                if groups is not None:
                    out['groups'] = sorted(str(g) for g in groups)
        ws = sorted(set(w.category.__name__ for w in wlist))
        if ws:
            out['warn'] = ws
        return out, val


record = Recorder()


class VerifDemoProps(object):
    """A second property set (the documented extension point of
    GroupLibrary): one number per group."""
    _yaml_schema = "value:\n  type: float\n  desc: a number\n"

    def __init__(self, value=None):
        self.value = value

    @classmethod
    def yaml_construct(cls, params, context):
        return cls(params['value'])

    def copy(self):
        return VerifDemoProps(self.value)

    def update(self, other, overwrite=False):
        if self.value is not None and other.value != self.value \
                and not overwrite:
            from pgradd.Error import ReadOnlyDataError
            raise ReadOnlyDataError('verifdemo value differs')
        self.value = other.value


class VerifDemoEstimate(object):
    def __init__(self, lib, groups):
        self.total = sum(groups[g] * lib[g]['verifdemo'].value
                         for g in groups)


_demo_registered = False


def register_demo_property_set():
    """Register the second property set (once per process)."""
    from pgradd import yaml_io
    from pgradd.GroupAdd.Library import GroupLibrary
    global _demo_registered
    if _demo_registered:
        return False
    _demo_registered = True
    yaml_io.register_class('VerifDemoProps',
                           yaml_io.parse(VerifDemoProps._yaml_schema),
                           VerifDemoProps)
    GroupLibrary.register_property_set_type('verifdemo', 'VerifDemoProps',
                                            VerifDemoEstimate)
    return True


def pset(property_sets, name):
    """property_sets[name] or None.  (What lib[group] returns is either a
    dict or the loader's attribute-backed mapping, whose .get() raises
    AttributeError for a missing name.)"""
    return property_sets[name] if name in property_sets else None


def lib_path(name, how):
    """how: 'name' (builtin or fixture by path) | 'path'."""
    if name.startswith('Fix'):
        return os.path.join(FIXTURES, name, 'library.yaml')
    if how == 'path':
        return os.path.join(core.pgradd_dir(), 'data', name, 'library.yaml')
    return name


def load_library(name, how='name'):
    from pgradd.GroupAdd.Library import GroupLibrary
    return GroupLibrary.Load(lib_path(name, how))


def build_lineage(lineage):
    """lineage = {'base': [name, how], 'merges': [[lineage, overwrite], ..]}
    Failed merges are part of the lineage (they may leave partial data)."""
    if lineage.get('registered'):
        register_demo_property_set()
    lib = load_library(*lineage['base'])
    if lineage.get('constructed'):
        lib = construct_copy(lib, lineage['constructed'] == 'empty')
    for other, overwrite in lineage.get('merges', []):
        olib = build_lineage(other)
        record(lib.Update, olib, overwrite)
    return lib


def construct_copy(src, empty=False):
    """A library made with the public constructor (scheme + contents, no
    uncertainty data, all other arguments left to their defaults); `empty`:
    the scheme only, everything else left to its default."""
    from pgradd.GroupAdd.Library import GroupLibrary
    if empty:
        return GroupLibrary(src.scheme)
    contents = dict((g, dict((n, c.copy()) for n, c in psets.items()))
                    for g, psets in src.contents.items())
    return GroupLibrary(src.scheme, contents)


def lineage_key(lineage):
    return core.digest(lineage)[:20]


def descriptors_canon(d):
    return sorted([str(k), repr(v)] for k, v in d.items())


def op_decompose(lib, mol):
    out, d = record(lib.GetDescriptors, mol)
    if d is not None:
        out['value'] = descriptors_canon(d)
    return out, d


def op_estimate(lib, desc):
    out, est = record(lib.Estimate, desc, 'thermochem')
    if est is not None:
        out['range'] = [repr(x) for x in est.get_range()] \
            if est.get_range() is not None else None
    return out, est


def _call_variant(obj, v):
    m = v['m']
    T = v['T']
    if m in ('get_CpoR', 'get_HoRT'):
        return getattr(obj, m)(T)
    if m in ('get_SoR', 'get_GoRT'):
        if v.get('S_el') is None:
            return getattr(obj, m)(T)
        return getattr(obj, m)(T, S_elements=v['S_el'])
    if m in ('get_H', 'get_Cp'):
        return getattr(obj, m)(T, v['unit'])
    if m in ('get_S', 'get_G'):
        if v.get('S_el') is None:
            return getattr(obj, m)(T, v['unit'])
        return getattr(obj, m)(T, v['unit'], S_elements=v['S_el'])
    raise ValueError(m)


def value_canon(val):
    """A property value: plain number -> float; anything else is described
    by its type (so a Quantity never compares equal to a float)."""
    import numpy as np
    if isinstance(val, (bool,)):
        return {'type': 'bool', 'repr': repr(val)}
    if isinstance(val, (int, float, np.floating, np.integer)):
        return float(val)
    return {'type': type(val).__name__, 'repr': repr(val)[:80]}


def op_evaluate(obj, variant):
    out, val = record(_call_variant, obj, variant)
    if 'ok' in out:
        out['value'] = value_canon(val)
    return out


def op_format(lib, group, units):
    corr = pset(lib[group], 'thermochem')
    out, val = record(corr.yaml_format, units)
    if 'ok' in out:
        out['value'] = val
    return out


def same_outcome(a, b, rel=1e-12):
    """Outcome equality: exception classes exactly, descriptor lists
    exactly, floats to rel (same code on the same data)."""
    if ('exc' in a) != ('exc' in b):
        return False
    if 'exc' in a:
        return a['exc'] == b['exc'] and a.get('groups') == b.get('groups')
    if a.get('warn') != b.get('warn'):
        return False
    if a.get('range') != b.get('range'):
        return False
    va, vb = a.get('value'), b.get('value')
    if isinstance(va, float) and isinstance(vb, float):
        return core.rel_close(va, vb, rel)
    return va == vb


# ------------------------------------------------------------------ digests

def corr_tuple(c):
    if not hasattr(c, 'ND_H_ref'):
        # some other property set: its public attributes
        return ['other', type(c).__name__,
                sorted((k, repr(v)) for k, v in vars(c).items()
                       if not k.startswith('_'))]
    cp = getattr(c, 'ND_Cp_data', None)
    items = sorted((repr(float(k)), repr(v)) for k, v in cp.items()) \
        if cp else []
    rng = c.get_range()
    return [repr(getattr(c, 'T_ref', None)), repr(getattr(c, 'ND_H_ref', None)),
            repr(getattr(c, 'ND_S_ref', None)), items,
            [repr(x) for x in rng] if rng is not None else None,
            type(c).__name__]


def lib_contents_canon(lib):
    out = {}
    for g in lib.contents:
        psets = lib.contents[g]
        out[str(g)] = dict((str(n), corr_tuple(psets[n])) for n in psets)
    return out


def scheme_canon(scheme):
    pats = [[p.get('center_name'), p.get('periph_name')]
            for p in scheme.patterns]
    remaps = dict((str(k), [[repr(a), str(b)] for a, b in v])
                  for k, v in scheme.remaps.items())
    others = [d.get('name') for d in scheme.other_descriptors]
    smi = [d.get('name') for d in scheme.smiles_based_descriptors]
    sma = [d.get('name') for d in scheme.smarts_based_descriptors]
    return [pats, remaps, others, smi, sma, len(scheme.pretreatment_rules)]


def uq_canon(lib):
    uq = lib.uq_contents
    if not uq:
        return None
    import numpy as np
    rm = uq['RMSE']
    rm_c = corr_tuple(rm.thermochem) if hasattr(rm, 'thermochem') else repr(rm)
    mat = np.asarray(uq['mat'])
    return {'descriptors': [str(d) for d in uq['descriptors']],
            'mat_shape': list(mat.shape),
            'mat_sha': core.digest([repr(x) for x in mat.ravel().tolist()]),
            'dof': repr(uq['dof']), 'rmse': rm_c}


def lib_digest(lib, with_scheme=True):
    # (repr of a unit-carrying value prints a debug line in pgradd)
    with redirect_stdout(io.StringIO()):
        doc = {'contents': lib_contents_canon(lib), 'uq': uq_canon(lib)}
        if with_scheme:
            doc['scheme'] = scheme_canon(lib.scheme)
    return core.digest(doc)


def process_state_canon():
    """Process-wide state of pgradd that an operation on one library has no
    business changing: the registries behind the public registration calls
    and the default arguments of the public constructors.  Read defensively
    (a private name that is gone is 'n/a', not an error).  The units table
    is deliberately not part of it: a correct memo of parsed units would
    change it without changing any result; what the table *answers* is
    checked by units_behaviour_problems() at the end of a history."""
    def safe(fn):
        try:
            return fn()
        except Exception as exc:
            return 'n/a: %s' % type(exc).__name__

    def defaults(path):
        def get():
            import importlib
            mod, cls, meth = path
            obj = getattr(importlib.import_module(mod), cls)
            return repr(getattr(obj, meth).__defaults__)
        return safe(get)

    def data_dir():
        from pgradd.GroupAdd import DataDir
        return DataDir._data_dir_cached \
            if DataDir._data_dir_cached is False else 'set'

    def estimators():
        from pgradd.GroupAdd.Library import GroupLibrary
        return sorted(GroupLibrary._property_set_estimator_types)

    def yaml_types():
        from pgradd.GroupAdd.Library import GroupLibrary
        return sorted(GroupLibrary._property_set_group_yaml_types.items())

    def repo():
        from pgradd.yaml_io import yaml_io as yio
        return sorted(yio._repository._loaders)
    return {
        'estimators': safe(estimators),
        'yaml_types': safe(yaml_types),
        'repo': safe(repo),
        'defaults': [
            defaults(('pgradd.GroupAdd.Scheme', 'GroupAdditivityScheme',
                      '__init__')),
            defaults(('pgradd.GroupAdd.Library', 'GroupLibrary', '__init__')),
            defaults(('pgradd.ThermoChem', 'ThermochemIncomplete',
                      '__init__')),
            defaults(('pgradd.ThermoChem', 'ThermochemIncomplete',
                      'yaml_format'))],
        'data_dir_cached': safe(data_dir),
    }


def units_table_size():
    try:
        from pgradd.Units.db import units_db
        return len(units_db.db)
    except Exception:
        return None


_PREFIX = [('a', 1e-18), ('f', 1e-15), ('p', 1e-12), ('n', 1e-9), ('u', 1e-6),
           ('m', 1e-3), ('c', 1e-2), ('d', 1e-1), ('da', 1e1), ('h', 1e2),
           ('k', 1e3), ('M', 1e6), ('G', 1e9), ('T', 1e12)]


def units_behaviour_problems(order=0):
    """What the units table answers, through the public API and against
    definitions only (a prefixed unit is the prefix times the unit, whatever
    the process did before): list of [expression, got, expected]."""
    from pgradd.Units import eval_quantity
    bad = []
    prefixes = _PREFIX if order == 0 else _PREFIX[::-1]
    with redirect_stdout(io.StringIO()):
        for base in ('J', 'cal', 'K', 'mol', 'eV'):
            try:
                one = eval_quantity('1 ' + base)
            except Exception as exc:
                bad.append([base, type(exc).__name__, 'a quantity'])
                continue
            for pre, fac in prefixes:
                expr = '1 %s%s' % (pre, base)
                try:
                    q = eval_quantity(expr)
                    ratio = float(q.value) / float(one.value)
                    same_dim = q.units == one.units
                except Exception as exc:
                    bad.append([expr, type(exc).__name__, repr(fac)])
                    continue
                if not same_dim or abs(ratio - fac) > 1e-9 * fac:
                    bad.append([expr, repr(ratio), repr(fac)])
    return bad


def process_digest():
    return core.digest(process_state_canon())
