"""C17 -- work-list simulation (DESIGN 3.5).

System: the real GenerateRxnNet and real RDKit reactions (rules given as
reaction SMARTS or as RING text).  Stub: the clock (SimClock over the lines
of RDkitWrapper/GenRxnNet.py and ReactionQuery.py).  The schedule of the
work list is perturbed through everything that may legally vary: the order
of the rules, the order of the seeds, the atom order of each seed SMILES.
Oracle: termination within a step budget derived from the reference
closure, no species listed twice, returned set == reference closure, the
returned set identical under all permutations.
"""
import itertools
import os

from sim import core
from sim.simclock import SimClock, StepBudgetExceeded
from . import libops, netmodel as nm

PROP = 'C17'
LEVEL = 'exploration'
COMPONENTS = {
    'real': ['pgradd.RDkitWrapper.GenRxnNet.GenerateRxnNet', 'ReactionQuery + RING reader for RING-text rules', 'RDKit reactions and substructure matching'],
    'stubs': ['clock (LINE-step counter restricted to GenRxnNet.py / ReactionQuery.py)', 'the schedule: order of rules, order of seeds, atom order of seed SMILES, rule text form', 'reference closure over hand-rolled labelled multigraphs (netmodel.py)']}
ASSUMPTIONS = [
    'the reference closure (netmodel.py: labelled multigraphs with explicit '
    'hydrogens, rules as graph edits, valence filter = no atom above its '
    'default valence) is what the rules denote on acyclic C/H/O species',
    'seeds are acyclic: for ring bonds the reaction engine itself, not the '
    'work list, decides what a two-fragment template yields',
    'the step clock sees GenRxnNet.py and ReactionQuery.py only; RDKit is C++',
]
SMALL = ['C', 'CC', 'C=C', 'CO', 'C#C', '[CH3]']
LARGE = ['CCC', 'CCCC', 'CC(C)C', 'CC=C', 'CCO', 'COC', 'OCO', 'C=CC=C',
         'CC(C)O', 'OCCO',   # distinct molecules: seeds form a set
         # unusual but legal: hetero-atoms above their default valence,
         # formal charges (the valence filter works on default valences)
         'CS(C)=O', 'C[N+](=O)[O-]', 'C[NH3+]', 'CSC', 'CN', 'CS', 'CP',
         # radicals (a seed may be the radical of another seed)
         '[CH2]C', '[CH2]', 'C[CH]C', '[OH]', 'C[O]', '[CH2]CO', '[CH2]C=C',
         'CCCO']

_st = {}


def worker_init(prop='C17', tier='quick'):
    libops.quiet()
    from pgradd.RDkitWrapper import GenRxnNet
    _st['gen'] = GenRxnNet.GenerateRxnNet
    _st['clock'] = SimClock(only_files=['GenRxnNet.py', 'ReactionQuery.py'])
    # warm-up (lazy imports inside Read)
    try:
        libops.record(_st['gen'], ['C'], [nm.RULES['CH']['ring']])
        libops.record(_st['gen'], ['C'], [nm.RULES['CH']['smarts']])
    except Exception:
        pass


def budget(n, r):
    return 1000000 + 200 * (n + 1) ** 2 * (r + 1)


def spelled(smiles, k):
    """k-th random atom order of a SMILES (deterministic)."""
    from rdkit import Chem
    if k == 0:
        return smiles
    m = Chem.MolFromSmiles(smiles)
    v = Chem.MolToRandomSmilesVect(m, 1, randomSeed=k)
    return v[0]


def run_net(seeds, rule_texts, limit, rules_obj=None):
    """One clocked call.  Fresh list objects by default: the function
    consumes its arguments.  rules_obj: the caller's own list, handed in
    again on a later call (the function replaces the texts in it by parsed
    rule objects)."""
    clock = _st['clock']
    out = {}
    rules_arg = rules_obj if rules_obj is not None else list(rule_texts)
    clock.start(limit)
    try:
        try:
            o, res = libops.record(_st['gen'], list(seeds), rules_arg)
        finally:
            out['steps'] = clock.stop()
    except StepBudgetExceeded:
        return {'kind': 'hang', 'where': list(clock.tripped),
                'steps': clock.steps}, None
    out.update(o)
    out['kind'] = 'ok' if res is not None else 'exc'
    return out, res


FAULT_RULES = {
    # a rule text nobody can read (neither RING nor reaction SMARTS)
    'garbage': 'this is not a rule',
    'bad_smarts': '[C:1][H:2>>[C:1].[H:2]',
    # a readable RING rule whose last step cannot be applied to an atom
    # without radicals: applying it to a closed-shell C-C bond fails midway
    'fails_midway': 'rule up{ reactant r1{ C? labeled c1 C? labeled c2 single '
                    'bond to c1 } increase bond order (c1, c2) decrease '
                    'number of radical (c1) decrease number of radical (c2) }',
}


def check_fault_case(case):
    """A call that cannot succeed (unreadable rule, or a rule that fails
    midway on the seed): it must raise -- not return a network -- and must
    not leave anything behind that changes later calls."""
    seeds = list(case['seeds'])
    texts = [nm.RULES[r]['smarts'] or nm.RULES[r]['ring']
             for r in case['rules']]
    texts.insert(case.get('pos', len(texts)) % (len(texts) + 1),
                 FAULT_RULES[case['fault']])
    out, res = run_net(seeds, texts, 5000000)
    viols = []
    if out['kind'] == 'hang':
        viols.append(core.violation(
            PROP, 'termination', 'hang', 'no-termination-on-failing-call|%s:%s'
            % tuple(out['where']), {'case': case}))
    elif res is not None:
        from rdkit import Chem
        viols.append(core.violation(
            PROP, 'failing-call', 'returned-a-network',
            'failing-call-returned-a-network|%s' % case['fault'],
            {'case': case, 'returned': [Chem.MolToSmiles(m)
                                        for m in res][:8]}))
    return ['fault', case['fault'], out.get('exc')], viols, \
        {'n': 0, 'steps': out.get('steps'), 'fault': case['fault']}


def check_case(case):
    if case.get('fault'):
        return check_fault_case(case)
    """case: {'seeds': [...], 'rules': [names], 'form': 'smarts'|'ring',
    'spell': [k per seed]}.  Returns (event, violations, info)."""
    from rdkit import Chem
    seeds = [spelled(s, k) for s, k in zip(case['seeds'], case['spell'])]
    forms = case.get('forms') or [case.get('form', 'smarts')] * \
        len(case['rules'])
    texts = [nm.RULES[r][f] or nm.RULES[r]['ring' if f == 'smarts'
                                        else 'smarts']
             for r, f in zip(case['rules'], forms)]
    sc = [nm.mol_to_canon(Chem.MolFromSmiles(s)) for s in case['seeds']]
    ref = nm.closure(sc, case['rules'])
    viols = []
    if ref is None:
        return ['closure-too-large'], viols, {'n': None}
    B = budget(len(ref), len(texts))
    rules_obj = None
    if case.get('reuse'):
        # the caller keeps one rules list for several calls
        key = (tuple(case['rules']), tuple(forms))
        rules_obj = _st.setdefault('kept_rules', {}).setdefault(key,
                                                               list(texts))
    out, res = run_net(seeds, texts, B, rules_obj)
    escalated = False
    if out['kind'] == 'hang':
        escalated = True
        out, res = run_net(seeds, texts, 20 * B, rules_obj)
    info = {'n': len(ref), 'steps': out.get('steps'), 'escalated': escalated}
    if out['kind'] == 'hang':
        viols.append(core.violation(
            PROP, 'termination', 'hang', 'no-termination|%s:%s'
            % tuple(out['where']),
            {'closure_size': len(ref), 'budget': 20 * B,
             'steps': out['steps']}))
        return ['hang'], viols, info
    if out['kind'] == 'exc':
        viols.append(core.violation(
            PROP, 'completes', out.get('exc'), 'raises|%s@%s'
            % (out.get('exc'), ':'.join(out.get('site', []))),
            {'outcome': out}))
        return ['exc', out.get('exc')], viols, info
    obs = [nm.mol_to_canon(m) for m in res]
    if any(o is None for o in obs):
        bad = [Chem.MolToSmiles(m) for m, o in zip(res, obs) if o is None]
        viols.append(core.violation(
            PROP, 'closure', 'outside-model', 'species-outside-the-model',
            {'species': bad[:5]}))
        return ['outside-model'], viols, info
    counts = {}
    for o in obs:
        counts[o] = counts.get(o, 0) + 1
    dups = sorted((nm.show(k), v) for k, v in counts.items() if v > 1)
    info['listed'] = len(obs)
    info['distinct'] = len(counts)
    if dups:
        viols.append(core.violation(
            PROP, 'duplicate-free', 'duplicates', 'species-listed-twice',
            {'duplicates': dups[:6], 'listed': len(obs),
             'distinct': len(counts)}))
    missing = ref - set(obs)
    extra = set(obs) - ref
    seeds_missing = [nm.show(s) for s in sc if s not in counts]
    if seeds_missing:
        viols.append(core.violation(
            PROP, 'closure', 'seed-missing', 'seed-not-in-network',
            {'missing_seeds': seeds_missing}))
    if missing:
        viols.append(core.violation(
            PROP, 'closure', 'missing', 'reachable-species-missing',
            {'missing': sorted(nm.show(x) for x in missing)[:6],
             'n_missing': len(missing), 'closure': len(ref)}))
    if extra:
        viols.append(core.violation(
            PROP, 'closure', 'extra', 'unreachable-species-listed',
            {'extra': sorted(nm.show(x) for x in extra)[:6],
             'n_extra': len(extra), 'closure': len(ref)}))
    setdig = core.digest(sorted(nm.show(x) for x in counts))[:16]
    info['setdig'] = setdig
    # (the step count is a statistic, not part of the outcome: a correct
    # memo inside the package may make a repeated call cheaper)
    return ['ok', len(obs), len(counts), setdig], viols, info


# ------------------------------------------------------------- generation

def gen_group(run_seed):
    """A group = one (seed set, rule set) and several schedules of it."""
    rng = core.rng_for('C17-run', run_seed)
    nseeds = rng.choice([1, 1, 2])
    pool = LARGE + SMALL
    seeds = rng.sample(pool, nseeds)
    rules = rng.sample(nm.RULE_NAMES, rng.randrange(1, 5))
    cases = []
    nsched = rng.randrange(2, 5)
    reuse = rng.random() < 0.3     # the caller re-uses its rules list
    for i in range(nsched):
        rs = list(rules)
        ss = list(seeds)
        if i > 0:
            if not reuse:
                rng.shuffle(rs)
            rng.shuffle(ss)
            if reuse and rng.random() < 0.5:
                # the kept rules list meets other molecules
                ss = rng.sample(pool, rng.choice([1, 1, 2]))
        # each rule as reaction SMARTS or as RING text (mixed lists are
        # legal); one style per schedule is drawn, then perturbed per rule
        p_ring = rng.choice([0.0, 0.0, 0.5, 1.0])
        if reuse and i > 0:
            forms = list(cases[0]['forms'])
        else:
            if reuse:
                p_ring = rng.choice([0.5, 1.0])
            forms = ['ring' if (nm.RULES[r]['smarts'] is None or
                                rng.random() < p_ring) else 'smarts'
                     for r in rs]
        case = {'seeds': ss, 'rules': rs, 'forms': forms,
                'spell': [0 if i == 0 else rng.randrange(1, 1000)
                          for _ in ss]}
        if reuse:
            case['reuse'] = True
        cases.append(case)
        if rng.random() < 0.3:
            # a call that fails, between two schedules of the same network
            fault = rng.choice(['garbage', 'bad_smarts', 'fails_midway'])
            fseeds = list(ss)
            if fault == 'fails_midway':
                closed = [m for m in LARGE + SMALL if m in
                          ('CC', 'CCC', 'CCCC', 'CC(C)C', 'CCO', 'CC(C)O',
                           'OCCO', 'CC=C')]
                fseeds = [rng.choice(closed)] + fseeds[:1]
            cases.append({'seeds': fseeds, 'rules': list(rs), 'fault': fault,
                          'pos': rng.randrange(5), 'spell': [0] * len(fseeds)})
    if cases[-1].get('fault'):
        # always a good call after the failing one
        cases.append(dict(cases[0]))
    return {'id': 'g%d' % run_seed, 'cases': cases}


def small_groups(tier):
    """Exhaustive finite part: all seed sets of 1..2 molecules with <= 2
    heavy atoms x all rule subsets of size <= 3 (quick) / <= 4 (thorough)
    x all orders of the rules."""
    groups = []
    seedsets = [[s] for s in SMALL] + \
        [list(p) for p in itertools.combinations(SMALL, 2)]
    kmax = 3 if tier == 'quick' else 4
    # rules that can match a species of <= 2 heavy atoms
    core_rules = ['ANYup', 'CC', 'CCanydown', 'CCdown', 'CCup', 'CH',
                  'CHclosed', 'CO', 'OH']
    for ss in seedsets:
        for k in range(1, kmax + 1):
            for sub in itertools.combinations(core_rules, k):
                cases = []
                for perm in itertools.permutations(sub):
                    cases.append({'seeds': ss, 'rules': list(perm),
                                  'forms': ['smarts'] * len(perm),
                                  'spell': [0] * len(ss)})
                if len(ss) == 2:
                    cases.append({'seeds': ss[::-1], 'rules': list(sub),
                                  'forms': ['smarts'] * len(sub),
                                  'spell': [0, 0]})
                # the same rules as RING text, once
                cases.append({'seeds': ss, 'rules': list(sub),
                              'forms': ['ring'] * len(sub),
                              'spell': [0] * len(ss)})
                groups.append({'id': 'x-%s-%s' % ('.'.join(ss), '+'.join(sub)),
                               'cases': cases})
    # seeds with formal charges / hetero-atoms above their default valence
    # under the wildcard rules (the rules that can touch their N-O, S=O, N-H
    # bonds): independent of VERIF_SEED
    for tag, seed in (('nitromethane', 'C[N+](=O)[O-]'),
                      ('methylammonium', 'C[NH3+]'), ('dmso', 'CS(C)=O')):
        for sub in (['ANYup', 'ANYbreak', 'ANYdown'], ['ANYbreak', 'ANYup'],
                    ['ANYdown', 'ANYup'], ['ANYdown', 'ANYbreak'],
                    ['CH', 'ANYup', 'ANYdown']):
            cases = [{'seeds': [seed], 'rules': list(sub),
                      'forms': ['smarts'] * len(sub), 'spell': [0]},
                     {'seeds': [seed, 'CCO'], 'rules': list(sub[::-1]),
                      'forms': ['smarts'] * len(sub), 'spell': [0, 0]}]
            groups.append({'id': 'q-%s-%s' % (tag, '+'.join(sub)),
                           'cases': cases})
    # a charged seed together with its neutral twin: species that differ only
    # in formal charge are different species
    for tag, pair in (('ammonium+amine', ['C[NH3+]', 'CN']),
                      ('amine+ammonium', ['CN', 'C[NH3+]'])):
        for sub in (['ANYbreak'], ['CH', 'ANYbreak'], ['ANYbreak', 'ANYup']):
            groups.append({'id': 'q-%s-%s' % (tag, '+'.join(sub)),
                           'cases': [{'seeds': list(pair), 'rules': list(sub),
                                      'forms': ['smarts'] * len(sub),
                                      'spell': [0, 0]}]})
    return groups


def plan(tier, verif_seed):
    tasks = []
    sg = small_groups(tier)
    step = 12
    for i in range(0, len(sg), step):
        tasks.append({'id': 'small-%d' % i, 'groups': sg[i:i + step]})
    n = 300 if tier == 'quick' else 8000
    n = int(os.environ.get('VERIF_C17_RUNS', n))
    seeds = [core.H(verif_seed, 'C17', j) for j in range(n)]
    for j in range(0, n, 6):
        tasks.append({'id': 'seeded-%d' % j, 'seeds': seeds[j:j + 6]})
    return tasks


def execute_group(group):
    _st['kept_rules'] = {}
    log = core.EventLog()
    viols = []
    stats = {'calls': 0, 'steps': 0, 'max_closure': 0, 'escalations': 0,
             'ring_rule_calls': 0, 'faults': {}}
    setdigs = {}
    first_case = {}
    for ci, case in enumerate(group['cases']):
        ev, vs, info = check_case(case)
        stats['calls'] += 1
        stats['steps'] += info.get('steps') or 0
        stats['max_closure'] = max(stats['max_closure'], info.get('n') or 0)
        if info.get('escalated'):
            stats['escalations'] += 1
        if info.get('fault'):
            stats['faults'][info['fault']] = \
                stats['faults'].get(info['fault'], 0) + 1
        if 'ring' in (case.get('forms') or [case.get('form')]):
            stats['ring_rule_calls'] += 1
        log.add('call', i=ci, case=case, ev=ev)
        for v in vs:
            # the calls this group made before belong to the history (a
            # kept rules list, or whatever the package remembers)
            v['spec'] = {'property': PROP, 'id': group['id'],
                         'cases': group['cases'][:ci + 1]}
            viols.append(v)
        if info.get('setdig'):
            key = (tuple(sorted(case['seeds'])), tuple(sorted(case['rules'])))
            if key in setdigs and setdigs[key] != info['setdig']:
                v = core.violation(
                    PROP, 'schedule-independence', 'set-differs',
                    'returned-set-depends-on-the-order',
                    {'one': first_case[key], 'other': case})
                v['spec'] = {'property': PROP, 'id': group['id'],
                             'cases': [first_case[key], case]}
                viols.append(v)
            setdigs.setdefault(key, info['setdig'])
            first_case.setdefault(key, case)
    return viols, log.digest(), stats


ISOLATE_TASKS = True       # a task is one process lifetime (sim/runner.py)


def task_groups(task):
    groups = list(task.get('groups') or [])
    for s in task.get('seeds') or []:
        groups.append(gen_group(s))
    return groups


def spec_history(spec):
    """The groups run before this one in its process lifetime."""
    if spec.get('history') is not None:
        return list(spec['history'])
    ht = spec.get('history_task')
    if ht:
        return task_groups(ht['task'])[:ht['upto']]
    return []


def execute_spec(spec):
    """In a process that has generated nothing yet."""
    for g in spec_history(spec):
        execute_group(g)
    viols, dig, stats = execute_group(spec)
    return viols, dig, stats


def run_task(task):
    groups = task_groups(task)
    results = []
    for gi, g in enumerate(groups):
        viols, dig, stats = execute_group(g)
        for v in viols:
            v['spec']['history_task'] = {'task': task, 'upto': gi}
        by = {}
        kept = []
        for v in viols:
            by[v['signature']] = by.get(v['signature'], 0) + 1
            if by[v['signature']] == 1:
                v['run'] = g['id']
                kept.append(v)
        results.append({
            'id': g['id'], 'digest': dig, 'violations': kept,
            'violation_counts': by, 'stats': stats,
            'exhaustive_part': g['id'].startswith('x-'),
            'nontrivial': stats['max_closure'] >= 3,
            'shape': core.digest([sorted(g['cases'][0]['seeds']),
                                  sorted(g['cases'][0]['rules'])])[:16],
            'faults': stats['faults'],
            'schedules': len(g['cases']),
            'sample': {'id': g['id'], 'cases': g['cases'][:3],
                       'closure_size': stats['max_closure']}})
    return results


def summarise(results):
    calls = steps = esc = ring = 0
    shapes = set()
    sched = set()
    nx = 0
    mx = 0
    faults = {}
    for r in results:
        for k, v in r.get('faults', {}).items():
            faults['failing-call:' + k] = faults.get('failing-call:' + k, 0) + v
        calls += r['stats']['calls']
        steps += r['stats']['steps']
        esc += r['stats']['escalations']
        ring += r['stats']['ring_rule_calls']
        mx = max(mx, r['stats']['max_closure'])
        if r['nontrivial']:
            shapes.add(r['shape'])
        if r['exhaustive_part']:
            nx += 1
    seeded = [r['sample'] for r in results if not r['exhaustive_part']][:2]
    small = [r['sample'] for r in results if r['exhaustive_part']][:1]
    return {
        'evaluations': calls,
        'distinct_nontrivial': len(shapes),
        'rule': 'one evaluation = one call of GenerateRxnNet under the step '
                'clock; calls are grouped by (seed set, rule set) and each '
                'group is run under several schedules (rule order, seed '
                'order, atom order of the seed SMILES, rules as SMARTS or '
                'RING text); distinct = distinct (seed set, rule set); '
                'non-trivial = reference closure of >= 3 species',
        'samples': seeded + small,
        'groups': len(results),
        'exhaustive_finite_part': '%d groups: every seed set of 1-2 '
        'molecules with <= 2 heavy atoms x rule subsets x every order of '
        'the rules' % nx,
        'largest_reference_closure': mx,
        'calls_with_RING_text_rules': ring,
        'budget_escalations': esc,
        'faults_fired': dict(faults, **{
            'schedule-perturbations (rule/seed/atom order, rule text form)':
            calls}),
        'simulated_time': {'unit': 'python LINE steps in GenRxnNet.py / '
                           'ReactionQuery.py', 'total': steps},
    }


def _forked(fn, timeout=900):
    from sim.zygote import _run_chain_forked
    kind, val = _run_chain_forked(lambda st, c: fn(), None, None, timeout)
    return val if kind == 'ok' else False


def shrink(spec, signature):
    import copy
    from sim.shrink import ddmin
    hist = spec_history(spec)
    best = copy.deepcopy(dict((k, v) for k, v in spec.items()
                              if k != 'history_task'))
    best['history'] = hist

    def ok(s):
        # every trial in a fork of this (unused) process
        def run():
            try:
                viols, _, _ = execute_spec(s)
            except Exception:
                return False
            return any(v['signature'] == signature for v in viols)
        return _forked(run)
    # the groups run before: none, or as few as needed
    if hist:
        if ok(dict(best, history=[])):
            best['history'] = []
        elif ok(best):
            best['history'] = ddmin(
                hist, lambda h: ok(dict(best, history=list(h))), max_tests=60)
    # the earlier calls of the group itself
    if len(best['cases']) > 1:
        last = best['cases'][-1]
        if ok(dict(best, cases=[last])):
            best['cases'] = [last]
        else:
            head = ddmin(best['cases'][:-1],
                         lambda h: ok(dict(best, cases=list(h) + [last])),
                         max_tests=40)
            best['cases'] = list(head) + [last]
    if best['history'] or len(best['cases']) > 1:
        best['history_needed'] = len(best['history']) + len(best['cases']) - 1
        return best
    # fewer rules, then smaller seeds
    changed = True
    while changed:
        changed = False
        for ci, case in enumerate(best['cases']):
            for ri in range(len(case['rules'])):
                if len(case['rules']) <= 1:
                    break
                cand = copy.deepcopy(best)
                for c in cand['cases']:
                    if case['rules'][ri] in c['rules']:
                        c['rules'].remove(case['rules'][ri])
                if ok(cand):
                    best = cand
                    changed = True
                    break
            if changed:
                break
    for small in SMALL:
        cand = copy.deepcopy(best)
        for c in cand['cases']:
            c['seeds'] = [small] * 1
            c['spell'] = [0]
        if ok(cand):
            best = cand
            break
    return best
