"""C14 -- locate / restart simulation (DESIGN 3.3).

Locating a library goes through the environment, a process-wide cache that
is filled once, os.path.exists on the caller's name and the file system.
System: real loaders and the real shipped YAML.  Stubs: SimFS holding the
shipped tree (at the bundled location and/or relocated), the simulated
environment, process restart (= a fork of the pristine worker per process
lifetime).  Faults: files lost / unreadable while relocating.

The self-consistency clause (every group evaluates, patterns readable,
remaps chain-free, uncertainty block well-formed) is a finite exhaustive
sweep, evaluated as the invariant after loading.
"""
import os

from sim import core
from sim.simfs import SimFS
from sim.zygote import _run_chain_forked
from . import libops

PROP = 'C14'
LEVEL = 'exploration'
COMPONENTS = {
    'real': ['GroupLibrary.Load, GroupAdditivityScheme.Load, DataDir.get_data_dir', 'every shipped YAML file (read once from the real tree)', 'RDKit', 'PyYAML', 'numpy', 'scipy'],
    'stubs': ['file system: SimFS holding the shipped tree at the bundled place and/or relocated', 'environment (simulated getenv)', 'current directory', 'process restart = one forked child per process lifetime', 'real-file-system tier: no stubs (scratch copy, new interpreters, real pgradd_DATA_DIR)']}
ASSUMPTIONS = [
    'process restart = fork of a worker that has never resolved the data '
    'directory (validated against genuinely new interpreters with the real '
    'pgradd_DATA_DIR and a scratch copy of the data on the real file system)',
    'the environment persists across a restart (it belongs to the caller)',
    'only valid directories are put into the override after the first '
    'resolution: the property does not say whether a later change is '
    'honoured, so either behaviour is accepted there (which directory was '
    'read is recorded as a probe)',
]
ENVVAR = 'pgradd_DATA_DIR'
RELOC = ['/sim/relocated/data', '/sim/other place/pgradd-data',
         '/mnt/x/y/z/data',
         # characters that are legal in a directory name and special elsewhere
         '/sim/snapshots/2024-05-01T10:30:00/data', '/sim/a,b;c=d/$HOME/~x/data']
ELSEWHERE = '/sim/elsewhere'

_st = {}


def bundled_dir():
    return os.path.join(core.pgradd_dir(), 'data')


def read_tree():
    """The shipped data tree: relative path -> text (sorted)."""
    root = bundled_dir()
    out = {}
    for d, _, files in sorted(os.walk(root)):
        for f in sorted(files):
            p = os.path.join(d, f)
            with open(p) as fh:
                out[os.path.relpath(p, root)] = fh.read()
    return out


def libraries(tree):
    return sorted(set(p.split('/')[0] for p in tree))


def worker_init(prop='C14', tier='quick'):
    libops.quiet()
    _st['tree'] = read_tree()
    _st['libs'] = libraries(_st['tree'])


# ------------------------------------------------------- one process life

def build_fs(world):
    """world: {'roots': [dirs holding a full copy], 'env': {...},
    'faults': [...], 'missing': {root: [relpaths]}}"""
    files = {}
    for root in world['roots']:
        for rel, text in _st['tree'].items():
            if rel in (world.get('missing', {}).get(root) or []):
                continue
            only = (world.get('only') or {}).get(root)
            if only is not None and rel.split('/')[0] not in only:
                continue
            files[root + '/' + rel] = text
    for path, dmg in sorted((world.get('damage') or {}).items()):
        if path in files:
            files[path] = damaged(files[path], dmg)
    fs = SimFS(files, env=world.get('env') or {}, cwd='/sim/cwd')
    fs.faults = [dict(f) for f in world.get('faults') or []]
    if world.get('install'):
        fs.path_map = [(core.pgradd_dir(), world['install'])]
    # the simulated disk: every directory holding a copy, the location the
    # package is (really or as simulated) installed at, and /sim
    fs.namespace = fs.namespace + [r for r in world['roots']
                                   if not r.startswith('/sim/')] + \
        [core.pgradd_dir()]
    return fs


def damaged(text, dmg):
    """A copy that went wrong: one word of the k-th pattern garbled, or the
    file torn off in the middle of a line."""
    if dmg['kind'] == 'garble':
        parts = text.split('labeled')
        k = 1 + dmg.get('at', 0) % max(1, len(parts) - 1)
        return 'labeled'.join(parts[:k]) + 'lab@eled' + \
            'labeled'.join(parts[k:]) if len(parts) > 1 else text[:-7]
    cut = int(len(text) * (0.3 + 0.4 * (dmg.get('at', 0) % 7) / 7.0))
    while cut < len(text) and text[cut] == '\n':
        cut += 1
    return text[:cut]


def opened_roots(fs, roots):
    used = set()
    n = 0
    for ev in fs.log:
        if ev[0] == 'open':
            n += 1
            for r in roots:
                if ev[1].startswith(r + '/'):
                    used.add(r)
    return sorted(used), n


def segment(state, chain):
    """Runs in a forked child: one process lifetime."""
    world, ops = chain
    fs = build_fs(world)
    if world.get('register_demo'):
        # the documented extension point: one more property-set type; the
        # shipped libraries carry no data of that type and must load as ever
        libops.register_demo_property_set()
    undo = fs.install()
    outs = []
    try:
        for op in ops:
            fs.log = []
            k = op['op']
            if k == 'setenv':
                fs.setenv(ENVVAR, op['value'])
                outs.append({'ok': True})
                continue
            if k == 'chdir':
                fs.cwd = op['dir']
                outs.append({'ok': True})
                continue
            if k == 'load_name':
                target = op['lib']
            elif k == 'load_path':
                target = op['root'] + '/' + op['lib'] + '/library.yaml'
                if op.get('rel') == 'lib':       # cwd = the library dir
                    target = 'library.yaml'
                elif op.get('rel') == 'root':    # cwd = the data dir
                    target = op['lib'] + '/library.yaml'
            else:
                raise ValueError(k)
            from pgradd.GroupAdd.Library import GroupLibrary
            out, lib = libops.record(GroupLibrary.Load, target)
            used, n = opened_roots(fs, world['roots'])
            out['roots'] = used
            out['opens'] = n
            out['fault_fired'] = sorted(
                set(e[-1] for e in fs.log if isinstance(e[-1], str) and
                    e[-1].startswith('fault:')))
            if lib is not None:
                out['digest'] = libops.lib_digest(lib)
                out['ngroups'] = len(lib)
                if op.get('sweep'):
                    out['sweep'] = sweep(lib, op['lib'])
            outs.append(out)
    finally:
        undo()
    return {'outs': outs, 'env': dict(fs.env)}


def run_life(world, ops):
    status, val = _run_chain_forked(segment, None, (world, ops), 600)
    if status != 'ok':
        raise RuntimeError('process-lifetime child failed: %s' % (val,))
    return val


# ------------------------------------------------------------------ sweep

def sweep(lib, name):
    """Finite exhaustive self-consistency check of one loaded library.
    Returns a list of problems (each a short dict)."""
    import math
    import numpy as np
    probs = []
    n_eval = 0
    for g in sorted(lib.contents, key=str):
        corr = libops.pset(lib.contents[g], 'thermochem')
        if corr is None:
            continue
        rng = corr.get_range()
        T_ref = corr.T_ref
        temps = [T_ref]
        if rng is not None:
            temps += [rng[0], rng[1], 0.5 * (rng[0] + rng[1])]
        has = []
        if corr.ND_Cp_data:
            has.append('get_CpoR')
        if corr.ND_H_ref is not None:
            has.append('get_HoRT')
        if corr.ND_S_ref is not None:
            has.append('get_SoR')
        for m in has:
            for T in temps:
                if m == 'get_CpoR' and T == T_ref and rng is None:
                    # no range given: heat capacity is defined on the table
                    ts = sorted(corr.ND_Cp_data)
                    T = ts[0]
                out = libops.op_evaluate(corr, {'m': m, 'T': float(T)})
                n_eval += 1
                v = out.get('value')
                if 'exc' in out:
                    probs.append({'kind': 'evaluation-raises', 'group': str(g),
                                  'what': m, 'T': float(T), 'exc': out['exc']})
                elif not isinstance(v, float) or not math.isfinite(v):
                    probs.append({'kind': 'not-a-finite-plain-number',
                                  'group': str(g), 'what': m, 'T': float(T),
                                  'value': v})
    # patterns: every connectivity text re-reads
    import yaml
    from pgradd.RINGParser import Read
    raw = yaml.safe_load(_st['tree'][name + '/scheme.yaml'])
    n_pat = 0
    for key in ('patterns', 'other_descriptors'):
        for ent in raw.get(key) or []:
            out, q = libops.record(Read, ent['connectivity'])
            n_pat += 1
            if q is None:
                probs.append({'kind': 'pattern-unreadable',
                              'name': ent.get('center_name') or ent.get('name'),
                              'exc': out.get('exc')})
    # remaps well-formed and chain-free
    remaps = lib.scheme.remaps
    for k, v in remaps.items():
        ok = isinstance(v, list) and v and all(
            isinstance(p, list) and len(p) == 2 and
            isinstance(p[0], (int, float)) and not isinstance(p[0], bool)
            and isinstance(p[1], str) for p in v)
        if not ok:
            probs.append({'kind': 'remap-malformed', 'name': str(k)})
            continue
        for p in v:
            if p[1] in remaps:
                probs.append({'kind': 'remap-chained', 'name': str(k),
                              'target': p[1]})
    # uncertainty block
    uq = lib.uq_contents
    if uq:
        basis = uq['descriptors']
        mat = np.asarray(uq['mat'], dtype=float)
        if mat.ndim != 2 or mat.shape[0] != mat.shape[1]:
            probs.append({'kind': 'uq-matrix-not-square',
                          'shape': list(mat.shape)})
        elif mat.shape[0] != len(basis):
            probs.append({'kind': 'uq-matrix-size-differs-from-basis',
                          'shape': list(mat.shape), 'basis': len(basis)})
        else:
            scale = float(np.abs(mat).max()) or 1.0
            if float(np.abs(mat - mat.T).max()) > 1e-9 * scale:
                probs.append({'kind': 'uq-matrix-asymmetric',
                              'max_asym': float(np.abs(mat - mat.T).max())})
            else:
                ev = np.linalg.eigvalsh(0.5 * (mat + mat.T))
                if ev.min() < -1e-9 * max(abs(ev.max()), 1e-300):
                    probs.append({'kind': 'uq-matrix-not-psd',
                                  'min_eig': float(ev.min())})
        for d in basis:
            if 'thermochem' not in lib[d]:
                probs.append({'kind': 'uq-basis-descriptor-without-data',
                              'name': str(d)})
        if len(set(map(str, basis))) != len(basis):
            probs.append({'kind': 'uq-basis-repeats-a-descriptor'})
    return {'problems': probs[:40], 'n_problems': len(probs),
            'evaluations': n_eval, 'patterns': n_pat,
            'remaps': len(remaps), 'uq_basis': len(uq['descriptors'])
            if uq else 0}


# ---------------------------------------------------------------- runs

def closure_files(lib):
    """Files in the include closure of a shipped library (relative)."""
    import yaml
    tree = _st['tree']
    seen = []

    def visit(rel):
        if rel in seen or rel not in tree:
            return
        seen.append(rel)
        d = yaml.safe_load(tree[rel]) or {}
        base = os.path.dirname(rel)
        for inc in d.get('include') or []:
            visit(os.path.normpath(os.path.join(base, inc)))
    visit(lib + '/library.yaml')
    seen.append(lib + '/scheme.yaml')
    return seen


class Run(object):
    def __init__(self, spec):
        self.spec = spec
        self.log = core.EventLog(spec.get('run_seed'))
        self.viols = []
        self.probes = {}
        self.stats = {'ops': 0, 'loads': 0, 'lives': 0, 'sweep_evals': 0,
                      'faults': {}}
        self.lib_digests = {}

    def probe(self, n):
        self.probes[n] = self.probes.get(n, 0) + 1

    def viol(self, oracle, cls, sig, detail):
        self.viols.append(core.violation(PROP, oracle, cls, sig, detail))

    def ref_digest(self, lib):
        """Digest of the library loaded by name from the bundled location
        in a fresh process (memoised per worker)."""
        memo = _st.setdefault('refdig', {})
        if lib not in memo:
            world = {'roots': [bundled_dir()], 'env': {}}
            r = run_life(world, [{'op': 'load_name', 'lib': lib}])
            memo[lib] = r['outs'][0].get('digest')
        return memo[lib]

    def run(self):
        spec = self.spec
        world = {'roots': list(spec['roots']), 'env': dict(spec.get('env') or {}),
                 'faults': spec.get('faults') or [],
                 'missing': spec.get('missing') or {},
                 'install': spec.get('install'),
                 'register_demo': spec.get('register_demo'),
                 'damage': dict(spec.get('damage') or {}),
                 'only': spec.get('only')}
        self.bundled = spec['install'] + '/data' if spec.get('install') \
            else bundled_dir()
        env = dict(world['env'])
        for li, life in enumerate(spec['lives']):
            world['env'] = env
            if life.get('clear_faults'):
                world['faults'] = []
                world['missing'] = {}
                world['damage'] = {}
            res = run_life(world, life['ops'])
            self.stats['lives'] += 1
            resolved = None          # model: directory of this lifetime
            cur_env = dict(env)
            cwd = '/sim/cwd'
            first_outcome = {}
            steady = all(f.get('sticky') for f in world.get('faults') or [])
            for op, out in zip(life['ops'], res['outs']):
                self.stats['ops'] += 1
                if op['op'] == 'setenv':
                    if op['value'] is None:
                        cur_env.pop(ENVVAR, None)
                    else:
                        cur_env[ENVVAR] = op['value']
                    self.log.add('setenv', life=li, value=op['value'])
                    continue
                if op['op'] == 'chdir':
                    self.log.add('chdir', life=li, dir=op['dir'])
                    cwd = op['dir']
                    continue
                self.stats['loads'] += 1
                self.check_load(op, out, world, cur_env, resolved, li)
                if steady:
                    # the same load again, in the same process, with the same
                    # disk, environment and current directory, ends the same
                    # way (whatever that way is: a damaged copy may be
                    # refused or not, but not refused once and accepted next)
                    key = core.dumps([op['op'], op['lib'], op.get('root'),
                                      op.get('rel'), cur_env.get(ENVVAR), cwd,
                                      resolved is None])
                    now = ['ok', out['digest']] if 'ok' in out \
                        else ['exc', out.get('exc')]
                    if key in first_outcome and first_outcome[key] != now:
                        self.viol('repeat-consistency', 'differs',
                                  'same-load-repeated-ends-differently|%s'
                                  % op['op'],
                                  {'lib': op['lib'], 'op': op,
                                   'first': first_outcome[key][:1] +
                                   [str(first_outcome[key][1])[:16]],
                                   'now': now[:1] + [str(now[1])[:16]]})
                    first_outcome.setdefault(key, now)
                    if len(first_outcome) and key in first_outcome and \
                            first_outcome[key] is not now:
                        self.probe('same_load_repeated_in_one_process')
                if op['op'] == 'load_name' and resolved is None and \
                        'ok' in out and out.get('roots'):
                    resolved = out['roots'][0]
                self.log.add('load', life=li, op=op,
                             ok='ok' in out, exc=out.get('exc'),
                             digest=(out.get('digest') or '')[:16],
                             roots=out.get('roots'))
            env = res['env']
        return self

    def check_load(self, op, out, world, env, resolved, li):
        lib = op['lib']
        faulty = bool(out.get('fault_fired'))
        missing_any = any(world.get('missing', {}).values())
        for f in out.get('fault_fired', []):
            self.stats['faults'][f] = self.stats['faults'].get(f, 0) + 1
        # Where may a load read from?  By name: the directory named by the
        # override at the first successful resolution of this process
        # lifetime, else the bundled one.  After a successful resolution a
        # changed override may or may not be honoured (not stated), so both
        # directories are acceptable then.  A failed resolution resolves
        # nothing.
        cur = env.get(ENVVAR) or self.bundled
        if len(cur) > 1:
            cur = cur.rstrip('/')      # 'dir/' names the directory 'dir'
        cur_valid = cur in world['roots']
        if op['op'] == 'load_name':
            if resolved is None:
                acceptable = [cur] if cur_valid else []
                may_fail = not cur_valid
            else:
                acceptable = [resolved] + ([cur] if cur_valid and
                                           cur != resolved else [])
                may_fail = not cur_valid
            want = acceptable[0] if acceptable else None
            first = resolved is None
        else:
            acceptable = [op['root']]
            may_fail = False
            want = op['root']
            first = True
        if want is not None and any(
                want + '/' + rel in (world.get('damage') or {})
                for rel in closure_files(lib)):
            # a file this load needs was damaged in the copy: being refused
            # and being read as whatever is left are both acceptable; only
            # the repeat-consistency oracle (in run) speaks about such loads
            self.probe('load_from_damaged_copy_' +
                       ('accepted' if 'ok' in out else 'refused'))
            return
        if 'ok' in out:
            self.lib_digests[lib] = out['digest']
            ref = self.ref_digest(lib)
            if out['digest'] != ref:
                self.viol('identical-contents', 'contents-differ',
                          'contents-differ|%s|%s' % (
                              op['op'], 'under-fault' if (faulty or
                                                          missing_any)
                              else 'fault-free'),
                          {'lib': lib, 'op': op, 'digest': out['digest'],
                           'reference': ref, 'roots': out.get('roots')})
            if faulty:
                self.viol('fault-handling', 'loaded-despite-fault',
                          'load-succeeded-although-a-needed-file-was-'
                          'unreadable', {'lib': lib, 'op': op,
                                         'faults': out['fault_fired']})
            # the override selects the directory (first resolution of a
            # process); later changes: either behaviour accepted
            if len(out.get('roots') or []) != 1 or \
                    out['roots'][0] not in acceptable:
                self.viol('resolution', 'wrong-directory',
                          'read-from-another-directory|%s|%s' % (
                              op['op'], 'override-set' if env.get(ENVVAR)
                              else 'override-unset'),
                          {'lib': lib, 'op': op, 'read_from': out.get('roots'),
                           'acceptable': acceptable})
            elif not first:
                self.probe('load_after_env_change_read_' + (
                    'first-resolved' if out['roots'] == [resolved] else
                    'current-env'))
            if op.get('rel'):
                self.probe('load_by_relative_path')
            sw = out.get('sweep')
            if sw:
                self.stats['sweep_evals'] += sw['evaluations']
                seen = set()
                for p in sw['problems']:
                    sig = 'sweep|%s|%s' % (p['kind'], lib)
                    if sig in seen:
                        continue
                    seen.add(sig)
                    self.viol('self-consistency', p['kind'], sig,
                              dict(p, library=lib))
        else:
            expected_fail = faulty or (want is not None and
                                       self.needed_missing(op, world, want))
            if expected_fail:
                self.probe('load_failed_under_copy_fault')
            elif may_fail:
                self.probe('load_failed_override_names_no_directory')
            else:
                self.viol('loads', 'load-failed',
                          'load-failed|%s|%s@%s' % (
                              op['op'], out.get('exc'),
                              ':'.join(out.get('site', []))),
                          {'lib': lib, 'op': op, 'outcome': out,
                           'env': env.get(ENVVAR)})

    def needed_missing(self, op, world, want):
        miss = world.get('missing', {}).get(want) or []
        need = set(closure_files(op['lib']))
        return any(m in need for m in miss)


def execute_spec(spec):
    r = Run(spec).run()
    case = spec.get('hash_seed_case')
    if case:
        # replay under the recorded hash seed: the contents read here are
        # compared with the digest recorded under the other hash seed
        mine = r.lib_digests.get(case['lib'])
        others = [d for d in case['digests'] if d != mine]
        if mine is not None and others:
            r.viols.append(core.violation(
                PROP, 'identical-contents', 'hash-seed',
                'contents-depend-on-the-hash-seed',
                {'lib': case['lib'], 'here': mine[:16],
                 'elsewhere': [d[:16] for d in others]}))
    return r.viols, r.log.digest(), r


# ------------------------------------------------------------- generation

def matrix_specs():
    """The fixed exhaustive matrix: 9 libraries x 3 ways, each in a fresh
    process; the by-name-bundled load also runs the sweep."""
    specs = []
    for lib in libraries(read_tree()):
        specs.append({'id': 'matrix-name-%s' % lib, 'roots': [bundled_dir()],
                      'env': {}, 'lives': [{'ops': [
                          {'op': 'load_name', 'lib': lib, 'sweep': True}]}]})
        specs.append({'id': 'matrix-path-%s' % lib,
                      'roots': [bundled_dir(), ELSEWHERE], 'env': {},
                      'lives': [{'ops': [
                          {'op': 'load_path', 'lib': lib,
                           'root': ELSEWHERE}]}]})
        # relocated: the bundled location does not exist at all
        specs.append({'id': 'matrix-reloc-%s' % lib, 'roots': [RELOC[0]],
                      'env': {ENVVAR: RELOC[0]}, 'lives': [{'ops': [
                          {'op': 'load_name', 'lib': lib}]}]})
    libs = libraries(read_tree())
    small = [l for l in libs if l not in ('BensonGA', 'PPY')]
    # a failed first resolution resolves nothing: the override is corrected
    # in the same process and the load by name must then work
    for lib in small[:3]:
        specs.append({'id': 'matrix-recover-%s' % lib, 'roots': [RELOC[0]],
                      'env': {ENVVAR: '/sim/no-such-dir'}, 'lives': [{'ops': [
                          {'op': 'load_name', 'lib': lib},
                          {'op': 'setenv', 'value': RELOC[0]},
                          {'op': 'load_name', 'lib': lib}]}]})
    # the same relative path names another library after a chdir
    for a, b in zip(small, small[1:] + small[:1]):
        specs.append({'id': 'matrix-relpath-%s-%s' % (a, b),
                      'roots': [ELSEWHERE], 'env': {}, 'lives': [{'ops': [
                          {'op': 'chdir', 'dir': ELSEWHERE + '/' + a},
                          {'op': 'load_path', 'lib': a, 'root': ELSEWHERE,
                           'rel': 'lib'},
                          {'op': 'chdir', 'dir': ELSEWHERE + '/' + b},
                          {'op': 'load_path', 'lib': b, 'root': ELSEWHERE,
                           'rel': 'lib'},
                          {'op': 'chdir', 'dir': ELSEWHERE},
                          {'op': 'load_path', 'lib': a, 'root': ELSEWHERE,
                           'rel': 'root'}]}]})
    # relocated copies below directories with unusual but legal names, and
    # the override written with a trailing separator
    for i, loc in enumerate(RELOC[1:]):
        for j, val in enumerate((loc, loc + '/')):
            specs.append({'id': 'matrix-relocname-%d-%d' % (i, j),
                          'roots': [loc], 'env': {ENVVAR: val},
                          'lives': [{'ops': [
                              {'op': 'load_name', 'lib': small[i % len(small)]},
                              {'op': 'load_name',
                               'lib': small[(i + 3) % len(small)]}]}]})
    # the override variable present but empty (shell wrappers, container
    # defaults): the same as not set
    specs.append({'id': 'matrix-emptyenv', 'roots': [bundled_dir()],
                  'env': {ENVVAR: ''}, 'lives': [{'ops': [
                      {'op': 'load_name', 'lib': small[0]},
                      {'op': 'load_name', 'lib': small[1]}]}]})
    # one library relocated on its own: a copy that holds nothing but that
    # library's directory
    for lib in libs:
        specs.append({'id': 'matrix-reloc-alone-%s' % lib, 'roots': [RELOC[1]],
                      'env': {ENVVAR: RELOC[1]}, 'only': {RELOC[1]: [lib]},
                      'lives': [{'ops': [
                          {'op': 'load_name', 'lib': lib},
                          {'op': 'load_path', 'lib': lib,
                           'root': RELOC[1]}]}]})
    # a copy that went wrong (one pattern of a scheme garbled, a data file
    # torn): loaded twice in one process, then again after a restart with
    # the copy repaired
    for i, (lib, rel, kind) in enumerate((
            (small[0], 'scheme.yaml', 'garble'),
            (small[1], 'scheme.yaml', 'garble'),
            ('BensonGA', 'scheme.yaml', 'garble'),
            (small[2], 'surface.yaml', 'torn'),
            ('BensonGA', 'gas_benson/oxygenates.yaml', 'torn'))):
        specs.append({'id': 'matrix-damaged-%d' % i, 'roots': [RELOC[0]],
                      'env': {ENVVAR: RELOC[0]},
                      'damage': {RELOC[0] + '/' + lib + '/' + rel:
                                 {'kind': kind, 'at': i}},
                      'lives': [
                          {'ops': [{'op': 'load_name', 'lib': lib},
                                   {'op': 'load_name', 'lib': lib},
                                   {'op': 'load_path', 'lib': lib,
                                    'root': RELOC[0]},
                                   {'op': 'load_name', 'lib': lib},
                                   {'op': 'load_name', 'lib': small[3]}]},
                          {'clear_faults': True,
                           'ops': [{'op': 'load_name', 'lib': lib}]}]})
    # polling: one file of a copy is not there (yet); the same load fails
    # again and again; the other libraries of that copy load as ever
    for lib, rel, n in (('BensonGA', 'gas_benson/strain.yaml', 4),
                        ('PPY', 'gas_benson/extra.yaml', 8),
                        (small[0], 'surface.yaml', 40)):
        others = [l for l in small if l != lib][:2]
        specs.append({'id': 'matrix-poll-%s-%d' % (lib, n),
                      'roots': [RELOC[0]], 'env': {ENVVAR: RELOC[0]},
                      'missing': {RELOC[0]: [lib + '/' + rel]},
                      'lives': [{'ops': [{'op': 'load_name', 'lib': lib}
                                         for _ in range(n)] + [
                          {'op': 'load_name', 'lib': others[0]},
                          {'op': 'load_path', 'lib': others[1],
                           'root': RELOC[0]},
                          {'op': 'load_path', 'lib': 'BensonGA'
                           if lib != 'BensonGA' else 'PPY',
                           'root': RELOC[0]}]}]})
    # one more property-set type registered before loading
    for lib in small[:2] + ['BensonGA']:
        specs.append({'id': 'matrix-extraset-%s' % lib,
                      'roots': [bundled_dir(), ELSEWHERE], 'env': {},
                      'register_demo': True, 'lives': [{'ops': [
                          {'op': 'load_name', 'lib': lib},
                          {'op': 'load_path', 'lib': lib,
                           'root': ELSEWHERE}]}]})
    # the package installed somewhere else: below a directory that is itself
    # called 'pgradd', and below an unrelated one
    for inst in ('/sim/home/pgradd/src/pgradd',
                 '/sim/opt/py/site-packages/pgradd',
                 '/sim/pgradd/pgradd/lib/pgradd'):
        specs.append({'id': 'matrix-install-%s' % inst.replace('/', '_'),
                      'roots': [inst + '/data'], 'env': {}, 'install': inst,
                      'lives': [{'ops': [
                          {'op': 'load_name', 'lib': small[0]},
                          {'op': 'load_name', 'lib': small[1]}]}]})
    return specs


def fault_specs(tier, verif_seed):
    """Copy faults while relocating: one file lost or unreadable."""
    tree = read_tree()
    specs = []
    files = sorted(tree)
    if tier == 'quick':
        rng = core.rng_for('C14-faults', verif_seed)
        files = sorted(rng.sample(files, 14))
    for i, rel in enumerate(files):
        lib = rel.split('/')[0]
        kind = ['lost', 'EACCES', 'EIO', 'EIO_read'][i % 4]
        spec = {'id': 'fault-%s-%s' % (kind, rel), 'roots': [RELOC[0]],
                'env': {ENVVAR: RELOC[0]}}
        if kind == 'lost':
            spec['missing'] = {RELOC[0]: [rel]}
        else:
            spec['faults'] = [{'kind': kind, 'path': RELOC[0] + '/' + rel,
                               'sticky': True, 'times': 99}]
        spec['lives'] = [
            {'ops': [{'op': 'load_name', 'lib': lib},
                     {'op': 'load_name', 'lib': lib}]},
            # fault cleared, process restarted
            {'clear_faults': True,
             'ops': [{'op': 'load_name', 'lib': lib}]}]
        specs.append(spec)
    return specs


def gen_history(run_seed):
    rng = core.rng_for('C14-run', run_seed)
    libs = libraries(_st['tree']) if 'tree' in _st else libraries(read_tree())
    cheap = [l for l in libs if l not in ('BensonGA', 'PPY')]
    nroots = rng.randrange(1, 3)
    relocs = rng.sample(RELOC, nroots)
    have_bundled = rng.random() < 0.6
    roots = relocs + ([bundled_dir()] if have_bundled else []) + [ELSEWHERE]
    env = {}
    if not have_bundled or rng.random() < 0.5:
        env[ENVVAR] = relocs[0]
    if rng.random() < 0.15:
        env[ENVVAR] = '/sim/no-such-dir'        # wrong from the start
    elif have_bundled and ENVVAR not in env and rng.random() < 0.3:
        env[ENVVAR] = ''                        # set but empty = not set
    lives = []
    for _ in range(rng.randrange(1, 4)):
        ops = []
        cwd_is_root = False     # every process lifetime starts in /sim/cwd
        for _ in range(rng.randrange(1, 5)):
            r = rng.random()
            lib = rng.choice(cheap if rng.random() < 0.85 else libs)
            if r < 0.5:
                if cwd_is_root:
                    # A name that exists in the current directory is a path
                    # by the loader's documented rule, so "by name" is only
                    # asked where no entry of that name is in sight.
                    ops.append({'op': 'chdir', 'dir': '/sim/cwd'})
                    cwd_is_root = False
                ops.append({'op': 'load_name', 'lib': lib})
            elif r < 0.75:
                root = rng.choice(roots)
                rel = rng.choice([None, None, 'lib', 'lib', 'root'])
                if rel == 'lib':
                    ops.append({'op': 'chdir', 'dir': root + '/' + lib})
                    cwd_is_root = False
                elif rel == 'root':
                    ops.append({'op': 'chdir', 'dir': root})
                    cwd_is_root = True
                ops.append({'op': 'load_path', 'lib': lib, 'root': root,
                            'rel': rel})
            else:
                # a valid directory, a directory that does not exist (the
                # load by name must then fail, and work again once the
                # override is corrected), or unset
                choices = list(relocs) + list(relocs) + ['/sim/no-such-dir']
                if have_bundled:
                    choices.append(None)
                    choices.append('')       # set but empty = not set
                ops.append({'op': 'setenv', 'value': rng.choice(choices)})
        lives.append({'ops': ops})
    return {'id': 'h%d' % run_seed, 'run_seed': run_seed, 'roots': roots,
            'env': env, 'lives': lives}


def plan(tier, verif_seed):
    tasks = []
    for s in matrix_specs():
        tasks.append({'id': s['id'], 'specs': [s]})
    fs = fault_specs(tier, verif_seed)
    for i in range(0, len(fs), 4):
        tasks.append({'id': 'faults-%d' % i, 'specs': fs[i:i + 4]})
    n = 100 if tier == 'quick' else 2000
    n = int(os.environ.get('VERIF_C14_RUNS', n))
    seeds = [core.H(verif_seed, 'C14', j) for j in range(n)]
    for j in range(0, n, 5):
        tasks.append({'id': 'hist-%d' % j, 'seeds': seeds[j:j + 5]})
    return tasks


def run_task(task):
    specs = list(task.get('specs') or [])
    for s in task.get('seeds') or []:
        specs.append(gen_history(s))
    results = []
    for spec in specs:
        spec = dict(spec, property=PROP)
        viols, dig, r = execute_spec(spec)
        by = {}
        kept = []
        for v in viols:
            by[v['signature']] = by.get(v['signature'], 0) + 1
            if by[v['signature']] == 1:
                v['spec'] = spec
                v['run'] = spec['id']
                kept.append(v)
        results.append({
            'id': spec['id'], 'digest': dig, 'violations': kept,
            'violation_counts': by, 'stats': r.stats, 'probes': r.probes,
            'kind': 'history' if spec['id'].startswith('h') else
            spec['id'].split('-')[0],
            'lib_digests': r.lib_digests,
            'shape': core.digest([spec.get('env'), spec['roots'],
                                  spec['lives'], spec.get('faults'),
                                  spec.get('missing')])[:16],
            'sample': spec})
    return results


def summarise(results):
    stats = {'ops': 0, 'loads': 0, 'lives': 0, 'sweep_evals': 0}
    faults = {}
    probes = {}
    kinds = {}
    shapes = set()
    for r in results:
        for k in stats:
            stats[k] += r['stats'][k]
        for k, v in r['stats']['faults'].items():
            faults[k] = faults.get(k, 0) + v
        for k, v in r['probes'].items():
            probes[k] = probes.get(k, 0) + v
        kinds[r['kind']] = kinds.get(r['kind'], 0) + 1
        if r['stats']['loads'] >= 1:
            shapes.add(r['shape'])
    nmat = kinds.get('matrix', 0)
    samples = [r['sample'] for r in results if r['kind'] == 'history'][:2] + \
        [r['sample'] for r in results if r['kind'] == 'fault'][:1] + \
        [r['sample'] for r in results if r['kind'] == 'matrix'][:1]
    return {
        'evaluations': len(results),
        'distinct_nontrivial': len(shapes),
        'rule': 'one evaluation = one scenario: a set of data directories '
                'in the in-memory file system, an environment, optional copy '
                'faults, and 1-3 process lifetimes of 1-3 operations '
                '(load by name / by path / change the override); distinct = '
                'distinct (directories, environment, lifetimes, faults) '
                'tuple; non-trivial = at least one load ran',
        'samples': samples,
        'exhaustive': False,
        'exhaustive_finite_part': '%d fixed scenarios = every shipped '
        'library x {by name, by explicit path, relocated via the override '
        'with the bundled directory absent} + recover-after-wrong-override '
        '+ relative-path sequences; sweep over every group, pattern, remap '
        'and uncertainty entry of every library' % nmat,
        'scenario_kinds': kinds,
        'loads': stats['loads'], 'process_lifetimes': stats['lives'],
        'sweep_evaluations': stats['sweep_evals'],
        'faults_fired': faults, 'probes': probes,
        'simulated_time': {'unit': 'operations', 'total': stats['ops']},
    }


def hash_seed_dependence(cells, diverged):
    """Contents must be identical however a library is located -- a
    relocated copy is necessarily read by another process, which need not
    share the hash seed."""
    by_lib = {}
    for hs in sorted(cells):
        for r in cells[hs]:
            for lib, dg in (r.get('lib_digests') or {}).items():
                by_lib.setdefault(lib, {}).setdefault(dg, hs)
    viols = []
    for lib in sorted(by_lib):
        if len(by_lib[lib]) > 1:
            v = core.violation(
                PROP, 'identical-contents', 'hash-seed',
                'contents-depend-on-the-hash-seed',
                {'lib': lib, 'digest_by_first_hash_seed':
                 dict((d[:16], h) for d, h in by_lib[lib].items())})
            other = sorted(by_lib[lib].items(), key=lambda kv: kv[1])
            v['spec'] = {'property': PROP, 'id': 'hash-seed-%s' % lib,
                         'hash_seed_case': {'lib': lib,
                                            'digests': dict(by_lib[lib])},
                         'roots': [bundled_dir()], 'env': {},
                         'lives': [{'ops': [{'op': 'load_name',
                                             'lib': lib}]}]}
            v['hash_seed'] = other[-1][1]
            v['run'] = 'hash-seed-%s' % lib
            viols.append(v)
    return viols[:2]


def shrink(spec, signature):
    if spec.get('hash_seed_case'):
        return spec
    # scenarios are already small; drop lifetimes / operations greedily
    import copy
    best = copy.deepcopy(spec)

    def ok(s):
        try:
            viols, _, _ = execute_spec(s)
        except Exception:
            return False
        return any(v['signature'] == signature for v in viols)
    changed = True
    while changed:
        changed = False
        for li in range(len(best['lives'])):
            for oi in range(len(best['lives'][li]['ops'])):
                cand = copy.deepcopy(best)
                del cand['lives'][li]['ops'][oi]
                cand['lives'] = [l for l in cand['lives'] if l['ops']]
                if cand['lives'] and ok(cand):
                    best = cand
                    changed = True
                    break
            if changed:
                break
    return best


# ------------------------------------------------- real file system tier

def fresh_value(doc):
    """Runs in a genuinely new interpreter, on the real file system, with
    the real environment variable: digest of a library loaded by name."""
    libops.quiet()
    lib = libops.load_library(doc['lib'], 'name')
    return libops.lib_digest(lib)[:16]


def post_check(results, tier, run_fresh):
    """No stubs at all: a scratch copy of pgradd/data on the real file
    system, new interpreters with the real pgradd_DATA_DIR."""
    import shutil
    import tempfile
    libs = libraries(read_tree())
    if tier == 'quick':
        libs = ['XieGA2022', 'GRWSurface2018']
    tmp = tempfile.mkdtemp(prefix='pgradd-verif-c14-')
    try:
        dst = os.path.join(tmp, 'relocated data')
        shutil.copytree(bundled_dir(), dst)
        os.environ[ENVVAR + '_VERIF'] = dst
        docs = [{'lib': l} for l in libs]
        plain = run_fresh(docs)
        reloc = run_fresh([dict(d, env={ENVVAR: dst}) for d in docs])
        # a second copy that stores byte-identical files once (file-level
        # symbolic links across the library directories), below a directory
        # whose name has a colon in it
        dst2 = os.path.join(tmp, 'snap-10:30:00', 'data')
        shutil.copytree(bundled_dir(), dst2)
        nlinks = _dedup_with_symlinks(dst2)
        libs2 = libs + [l for l in ('PPY', 'BensonGA') if l not in libs]
        if tier == 'quick':
            libs2 = libs2[:3]
        # loaded once before the property sets were registered (warning,
        # no data), then the import, then loaded again: same contents
        late = run_fresh([{'lib': l, 'early_load': l} for l in libs])
        plain2 = plain + run_fresh([{'lib': l} for l in libs2[len(libs):]])
        dedup = run_fresh([{'lib': l, 'env': {ENVVAR: dst2}} for l in libs2])
    finally:
        shutil.rmtree(tmp, ignore_errors=True)
        os.environ.pop(ENVVAR + '_VERIF', None)
    sim = {}
    for r in results:
        if r['id'].startswith('matrix-'):
            for l, dg in r['lib_digests'].items():
                sim[l] = dg[:16]
    viols = []
    for l, a, b in zip(libs, plain, reloc):
        if sim.get(l) is not None and a is not None and sim[l] != a:
            raise RuntimeError('SimFS and the real file system disagree on '
                               'the contents of %s (%s vs %s)'
                               % (l, sim[l], a))
        if a is None or b is None or a != b:
            v = core.violation(
                PROP, 'identical-contents', 'real-fs',
                'real-file-system|relocated-copy-differs-or-fails',
                {'lib': l, 'bundled': a, 'relocated': b})
            v['spec'] = {'property': PROP, 'id': 'real-fs', 'roots': [],
                         'lives': []}
            v['run'] = 'real-fs-' + l
            viols.append(v)
    for l, a, b in zip(libs, plain, late):
        if a is None or b is None or a != b:
            v = core.violation(
                PROP, 'identical-contents', 'real-fs',
                'real-file-system|load-after-late-registration-differs',
                {'lib': l, 'bundled': a, 'after_early_load': b})
            v['spec'] = {'property': PROP, 'id': 'real-fs', 'roots': [],
                         'lives': []}
            v['run'] = 'real-fs-late-' + l
            viols.append(v)
    for l, a, b in zip(libs2, plain2, dedup):
        if a is None or b is None or a != b:
            v = core.violation(
                PROP, 'identical-contents', 'real-fs',
                'real-file-system|deduplicated-copy-differs-or-fails',
                {'lib': l, 'bundled': a, 'relocated': b,
                 'symbolic_links': nlinks})
            v['spec'] = {'property': PROP, 'id': 'real-fs', 'roots': [],
                         'lives': []}
            v['run'] = 'real-fs-dedup-' + l
            viols.append(v)
    return viols, {'real_file_system_scenarios': 3 * len(libs) + len(libs2),
                   'symbolic_links_in_deduplicated_copy': nlinks}


def _dedup_with_symlinks(root):
    import hashlib
    first = {}
    n = 0
    for d, _, names in sorted(os.walk(root)):
        for name in sorted(names):
            path = os.path.join(d, name)
            with open(path, 'rb') as f:
                h = hashlib.sha256(f.read()).hexdigest()
            if h in first:
                os.remove(path)
                os.symlink(os.path.relpath(first[h], d), path)
                n += 1
            else:
                first[h] = path
    return n
