"""C12, C13, C18 -- library-store simulation (DESIGN 3.2).

A group library is a small multi-file store: a root file, recursive
includes, per-file unit context, in-place merging with conflict detection,
and a textual writer whose output is read back by the same loader.

System: real GroupLibrary.Load/_Load/_do_load/Update, yaml_io, Units,
ThermochemGroup/Incomplete/RawData, Group.parse.  Stubs: SimFS (files exist
only in memory) with a fault plan.  Reference model: storegen.model_*.
"""
import copy
import random
import os

from sim import core
from sim.simfs import SimFS
from sim.shrink import ddmin
from . import libops, storegen as sg

LEVEL = 'exploration'
COMPONENTS = {
    'real': ['GroupLibrary.Load/_Load/_do_load/Update', 'yaml_io (schema, loaders)', 'Units', 'ThermochemGroup/Incomplete/RawData incl. yaml_format', 'Group.parse', 'PyYAML', 'numpy', 'scipy'],
    'stubs': ['file system: SimFS (in-memory) behind open/os of Library, Scheme, DataDir, with a fault plan', 'reference model of union / conflict / hull (storegen.py)', 'a one-pattern scheme file']}
ASSUMPTIONS = [
    'the reference model (storegen.py: union of records, conflict unless '
    'overwrite, hull of ranges) is the meaning of the property statements; '
    'it never parses YAML and never calls pgradd',
    'numbers are written in plain decimal notation and exactly; unit '
    'factors are the harness own constants (cal = 4.184 J, eV, Avogadro, '
    'SI prefixes), R = 8.314472 J/(mol K)',
    'worlds: <= 6 groups, <= 4 files per datum, <= 6 files, include depth '
    '<= 3, <= 25 operations',
]
ROOT = '/sim/w'

_st = {}


def worker_init(prop='C13', tier='quick'):
    libops.quiet()


def _proc_digest():
    doc = libops.process_state_canon()
    doc.pop('data_dir_cached')
    return core.digest(doc)


# ------------------------------------------------------------ observation

def is_plain(x):
    import numpy as np
    return isinstance(x, (float, int, np.floating, np.integer)) and \
        not isinstance(x, bool)


def obs_record(corr):
    """Fields of a correlation object; non-plain numbers are described."""
    def num(x):
        if x is None:
            return None
        return float(x) if is_plain(x) else {'type': type(x).__name__}
    cp = {}
    for t, v in (corr.ND_Cp_data or {}).items():
        cp[float(t) if is_plain(t) else repr(t)] = num(v)
    rng = corr.get_range()
    return {'T_ref': num(corr.T_ref), 'H': num(corr.ND_H_ref),
            'S': num(corr.ND_S_ref), 'Cp': cp,
            'range': [num(rng[0]), num(rng[1])] if rng is not None else None}


def obs_lib(lib):
    out = {}
    for g in lib.contents:
        ps = lib.contents[g]
        if 'thermochem' in ps:
            out[str(g)] = obs_record(ps['thermochem'])
    return out


def _close(a, b, rel, abs_=1e-300):
    if isinstance(a, dict) or isinstance(b, dict):
        return False
    if a is None or b is None:
        return a is None and b is None
    return core.rel_close(a, b, rel, abs_)


def diff_record(obs, exp, rel=1e-12):
    """List of (field, observed, expected) differences."""
    out = []
    if not _close(obs['T_ref'], exp['T_ref'], rel):
        out.append(('T_ref', obs['T_ref'], exp['T_ref']))
    for d in ('H', 'S'):
        if not _close(obs[d], exp[d], rel):
            out.append((d, obs[d], exp[d]))
    er = exp['range']
    orr = obs['range']
    if (er is None) != (orr is None) or (er is not None and not (
            _close(orr[0], er[0], rel) and _close(orr[1], er[1], rel))):
        out.append(('range', orr, list(er) if er else None))
    ot = sorted(t for t in obs['Cp'] if not isinstance(t, str))
    et = sorted(exp['Cp'])
    if len(ot) != len(et) or len(ot) != len(obs['Cp']) or \
            any(not _close(a, b, rel) for a, b in zip(ot, et)):
        out.append(('Cp-temperatures', ot, et))
    else:
        for a, b in zip(ot, et):
            if not _close(obs['Cp'][a], exp['Cp'][b], rel):
                out.append(('Cp', [a, obs['Cp'][a]], [b, exp['Cp'][b]]))
    return out


def diff_lib(obs, model, rel=1e-12):
    out = []
    for k in sorted(set(obs) | set(model)):
        if k not in obs:
            out.append((k, 'missing-group', None, 'present'))
        elif k not in model:
            out.append((k, 'extra-group', 'present', None))
        else:
            for f, o, e in diff_record(obs[k], model[k], rel):
                out.append((k, f, o, e))
    return out


def stratum_of(field, obs, exp):
    """Attribute a field difference to a stratum (stable signature part)."""
    vals = [v for v in (obs, exp) if isinstance(v, (int, float))]
    if isinstance(obs, dict):
        return 'non-plain-' + str(obs.get('type'))
    if any(v == 0 for v in vals) and len(vals) < 2 or \
            (len(vals) == 2 and (vals[0] == 0) != (vals[1] == 0)):
        return 'zero'
    if obs is None and exp is not None:
        return 'zero' if exp == 0 else 'dropped'
    if exp is None and obs is not None:
        return 'spurious'
    return 'value'


def grid(rec):
    """Evaluation temperatures: T_ref, knots, just inside the range ends,
    midpoints (<= 9 points)."""
    pts = [rec['T_ref']]
    ts = sorted(rec['Cp'])
    pts += ts[:3] + ts[-2:]
    if rec['range'] is not None:
        lo, hi = rec['range']
        pts += [lo + (hi - lo) * 1e-9, hi - (hi - lo) * 1e-9, 0.5 * (lo + hi)]
    elif ts:
        pts += [0.5 * (ts[0] + ts[-1])]
    out = []
    for p in pts:
        if all(abs(p - q) > 1e-9 for q in out):
            out.append(p)
    return out[:9]


def props(corr, temps):
    out = {}
    for m in ('get_CpoR', 'get_HoRT', 'get_SoR'):
        for T in temps:
            out['%s@%r' % (m, T)] = libops.op_evaluate(corr, {'m': m, 'T': T})
    return out


def scale_of(rec):
    """Magnitude of a record's data (absolute tolerances scale with it: a
    spline through values of order 10 that crosses zero is only known to
    1e-15 * 10 * its condition)."""
    vals = [abs(v) for v in (rec['H'], rec['S']) if v is not None]
    vals += [abs(v) for v in rec['Cp'].values()]
    return 1.0 + (max(vals) if vals else 0.0)


def diff_props(a, b, rel=1e-9, abs_=1e-12):
    out = []
    for k in sorted(a):
        x, y = a[k], b[k]
        if ('exc' in x) != ('exc' in y) or \
                ('exc' in x and x['exc'] != y['exc']):
            out.append((k, x.get('exc', 'value'), y.get('exc', 'value')))
        elif 'exc' not in x:
            vx, vy = x.get('value'), y.get('value')
            if isinstance(vx, float) and isinstance(vy, float):
                if not core.rel_close(vx, vy, rel, abs_):
                    out.append((k, vx, vy))
            elif vx != vy:
                out.append((k, vx, vy))
    return out


def nonplain_props(p):
    return sorted(k for k, v in p.items()
                  if 'exc' not in v and not isinstance(v.get('value'), float))


# ------------------------------------------------------------ the machine

class Machine(object):
    """Interprets an explicit operation list against pgradd (through SimFS)
    and against the model, checking after every step."""

    def __init__(self, spec, prop):
        self.spec = spec
        self.prop = prop
        self.aw = copy.deepcopy(spec['aw'])
        self.pres = copy.deepcopy(spec['pres'])
        self.fs = SimFS()
        self.libs = {}             # name -> {'obs': lib, 'model': dict|None}
        self.log = core.EventLog(spec.get('run_seed'))
        self.viols = []
        self.probes = {}
        self.stats = {'ops': 0, 'loads': 0, 'merges': 0}
        self.last_merge = None
        self.proc0 = None
        self.garbled = None
        self.malformed = None
        self.malformed_applied = False
        self.dropped = {}
        self.version = 0
        self.data_version = 0
        self.rerender()

    def probe(self, n):
        self.probes[n] = self.probes.get(n, 0) + 1

    def viol(self, oracle, cls, sig, detail, idx):
        d = dict(detail)
        d['op_index'] = idx
        d['strata'] = self.aw.get('strata')
        self.viols.append(core.violation(self.prop, oracle, cls, sig, d))

    def rerender(self):
        files, self.model_entries = sg.render(self.aw, self.pres, ROOT)
        # fault "no unit available": delete lines of the units block
        for f, kinds in self.dropped.items():
            path = ROOT + '/' + f
            lines = []
            for line in files[path].split('\n'):
                st = line.strip()
                if line.startswith('    ') and not line.startswith('     ') \
                        and st.split(':')[0] in kinds:
                    if self.garbled:
                        lines.append('    %s: %s' % (st.split(':')[0],
                                                     self.garbled))
                    continue
                lines.append(line)
            files[path] = '\n'.join(lines)
        # fault "malformed datum": one Cp row damaged
        if self.malformed:
            f, how = self.malformed
            path = ROOT + '/' + f
            lines = files[path].split('\n')
            rows = [i for i, ln in enumerate(lines)
                    if ln.strip().startswith('- [') and ',' in ln]
            if rows:
                i = rows[how[1] % len(rows)]
                ln = lines[i]
                head, rest = ln.split('[', 1)
                a, b = rest.rstrip().rstrip(']').split(',', 1)
                if how[0] == 'truncated':
                    lines[i] = '%s[%s]' % (head, a)
                elif how[0] == 'third':
                    lines[i] = '%s[%s,%s, 1.0]' % (head, a, b)
                else:
                    lines[i] = '%s[%s, 2.0.1]' % (head, a)
                files[path] = '\n'.join(lines)
                self.malformed_applied = True
        # a scheme next to every file (sub-trees are loaded as roots too)
        dirs = set(os.path.dirname(p) for p in files)
        for d in dirs:
            files[d + '/scheme.yaml'] = sg.SCHEME_TEXT
        self.fs.files = files
        self.version += 1

    def load(self, path):
        self.stats['loads'] += 1
        from pgradd.GroupAdd.Library import GroupLibrary
        return libops.record(GroupLibrary.Load, path)

    # -- model expectation of a load
    def expect_load(self, root):
        try:
            return sg.model_load(self.aw, self.model_entries, root), None
        except sg.Conflict as c:
            return None, ('conflict', c.key, c.datum)
        except KeyError as e:
            return None, ('duplicate', str(e))

    def check_lib(self, name, idx, opkind, rel=None):
        """Field-level refinement: the observed library equals the model."""
        L = self.libs[name]
        if L['model'] is None:
            return
        if rel is None:
            rel = 1e-12 if self.prop == 'C13' else 1e-9
        obs = obs_lib(L['obs'])
        diffs = diff_lib(obs, L['model'], rel)
        seen = set()
        for k, f, o, e in diffs:
            ov = o[1] if f == 'Cp' and isinstance(o, list) else o
            evv = e[1] if f == 'Cp' and isinstance(e, list) else e
            st = stratum_of(f, ov, evv)
            sig = '%s|%s|%s' % (opkind, f, st)
            if sig in seen:
                continue
            seen.add(sig)
            self.viol('model-refinement', f, sig,
                      {'lib': name, 'group': k, 'field': f, 'observed': o,
                       'expected': e, 'how': L.get('how')}, idx)
        if diffs:
            # report once: continue from what is actually there
            plain = all(not isinstance(v, dict)
                        for r in obs.values()
                        for v in [r['T_ref'], r['H'], r['S']]
                        + list(r['Cp'].values()))
            L['model'] = dict((k, _as_model(v)) for k, v in obs.items()) \
                if plain else None

    def run(self):
        undo = self.fs.install()
        self.units0 = libops.units_table_size()
        try:
            for idx, op in enumerate(self.spec['ops']):
                fn = getattr(self, 'do_' + op['op'])
                self.fs.log = []
                ev = fn(op, idx)
                self.stats['ops'] += 1
                self.log.add('op', i=idx, op=op['op'], ev=ev,
                             fs=[e[:3] for e in self.fs.log])
                # invariant: every live library still equals its model
                for name in sorted(self.libs):
                    if name != ev_target(op):
                        self.check_untouched(name, idx, op['op'])
                # invariant: process-wide state (registries, units table,
                # default arguments) is not changed by any operation,
                # failed ones included
                pd = _proc_digest()
                if self.proc0 is None:
                    self.proc0 = pd
                elif pd != self.proc0:
                    self.viol('state-altered', 'process-state',
                              'process-state-changed|by=%s' % op['op'],
                              {'now': libops.process_state_canon()}, idx)
                    self.proc0 = pd
            # at the end (never in between: the probe itself would put the
            # units it asks for into whatever memo the table keeps): what
            # the units table answers, against definitions
            n_ops = len(self.spec['ops'])
            # (order of asking fixed per run, not per length: shrinking the
            # operations must not change it)
            bad = libops.units_behaviour_problems(
                int(self.spec.get('run_seed') or 0) % 2)
            if bad:
                self.viol('state-altered', 'units-table',
                          'units-table-answers-against-definitions',
                          {'problems': bad[:6]}, n_ops)
            size = libops.units_table_size()
            if size is not None and self.units0 is not None and \
                    size != self.units0:
                self.probe('history_grew_the_units_table')
        finally:
            undo()
        return self

    def check_untouched(self, name, idx, opkind):
        L = self.libs[name]
        now = core.digest(obs_lib(L['obs']))
        if now != L['digest']:
            self.viol('state-altered', 'bystander-library',
                      'bystander-library-changed|by=%s' % opkind,
                      {'lib': name}, idx)
            L['digest'] = now

    def remember(self, name, lib, model, how):
        self.libs[name] = {'obs': lib, 'model': model, 'how': how,
                           'digest': core.digest(obs_lib(lib)),
                           'data_version': self.data_version}

    # ---------------------------------------------------------- operations
    def do_load(self, op, idx):
        root = op.get('root', self.aw['root'])
        exp, why = self.expect_load(root)
        out, lib = self.load(ROOT + '/' + root)
        fired = [f for f in self.fs.faults if f.get('fired') or
                 f.get('times', 1) <= 0]
        active_fault = any(e[-1].startswith('fault:') for e in self.fs.log
                           if isinstance(e[-1], str))
        if active_fault:
            self.probe('load_under_io_fault')
            if lib is not None:
                self.viol('fault-handling', 'partial-library',
                          'load-returned-library-despite-io-fault',
                          {'root': root, 'fs': self.fs.log[-6:]}, idx)
            elif out.get('exc') not in ('OSError', 'FileNotFoundError',
                                        'PermissionError'):
                self.viol('fault-handling', 'fault-masked',
                          'io-fault-surfaced-as-%s' % out.get('exc'),
                          {'root': root, 'outcome': out}, idx)
            return ['load-io-fault', root, out.get('exc')]
        if exp is None:
            self.probe('load_expected_to_fail_' + why[0])
            if lib is None:
                # the rejected load is retried: same data, same verdict
                out2, lib2 = self.load(ROOT + '/' + root)
                if lib2 is not None:
                    self.viol('model-refinement', 'accepted-on-retry',
                              'load-accepted-%s-on-retry' % why[0],
                              {'root': root, 'why': why}, idx)
            if lib is not None:
                self.viol('model-refinement', 'accepted-' + why[0],
                          'load-accepted-%s|%s' % (why[0], why[-1]
                                                   if why[0] == 'conflict'
                                                   else ''),
                          {'root': root, 'why': why}, idx)
            elif why[0] == 'conflict' and out.get('exc') != 'ReadOnlyDataError':
                self.viol('model-refinement', 'wrong-error',
                          'conflict-surfaced-as-%s' % out.get('exc'),
                          {'root': root, 'why': why, 'outcome': out}, idx)
            return ['load-rejected', root, why[0], out.get('exc')]
        if lib is None:
            self.viol('model-refinement', 'load-failed',
                      'load-failed|%s@%s' % (out.get('exc'),
                                             ':'.join(out.get('site', []))),
                      {'root': root, 'outcome': out}, idx)
            return ['load-failed', root, out.get('exc')]
        name = op['as']
        self.remember(name, lib, exp, 'load')
        self.check_lib(name, idx, 'load')
        self.libs[name]['digest'] = core.digest(obs_lib(lib))
        if self.prop == 'C13' and op.get('grid', True):
            self.grid_check(name, idx)
        if len(set(sg.file_order(self.aw, root))) > 1:
            self.probe('multi_file_load')
        return ['load', root, name, sorted(exp)]

    def grid_check(self, name, idx):
        """Differential oracle: the merged objects evaluate like a
        single-file canonical rendering of the model."""
        L = self.libs[name]
        model = L['model']
        lines = ['groups:']
        for k in sorted(model):
            r = model[k]
            lines.append("    '%s':" % k.replace("'", "''"))
            lines.append("        'thermochem':")
            lines.append('            T_ref: %s K' % sg.fmt(r['T_ref']))
            if r['H'] is not None:
                lines.append('            ND_H_ref: %r' % r['H'])
            if r['S'] is not None:
                lines.append('            ND_S_ref: %r' % r['S'])
            if r['Cp']:
                lines.append('            ND_Cp_data:')
                for t in sorted(r['Cp']):
                    lines.append('                - [%s K, %r]'
                                 % (sg.fmt(t), r['Cp'][t]))
            if r['range'] is not None:
                lines.append('            range: [%s K, %s K]'
                             % (sg.fmt(r['range'][0]), sg.fmt(r['range'][1])))
        self.fs.files['/sim/canon/library.yaml'] = '\n'.join(lines) + '\n'
        self.fs.files['/sim/canon/scheme.yaml'] = sg.SCHEME_TEXT
        out, canon = self.load('/sim/canon/library.yaml')
        if canon is None:
            # descriptors are listed under groups here; names without
            # parentheses parse as bare groups -- any failure is reported
            self.viol('model-refinement', 'canonical-load-failed',
                      'canonical-rendering-rejected|%s' % out.get('exc'),
                      {'outcome': out}, idx)
            return
        for k in sorted(model):
            a = libops.pset(L['obs'][k], 'thermochem')
            b = libops.pset(canon[k], 'thermochem')
            if a is None or b is None:
                continue
            temps = grid(model[k])
            for key, x, y in diff_props(props(a, temps), props(b, temps),
                                        abs_=1e-10 * scale_of(model[k])):
                self.viol('differential', 'merged-vs-single-file',
                          'merged-object-evaluates-differently|%s'
                          % key.split('@')[0],
                          {'group': k, 'at': key, 'merged': x,
                           'single_file': y}, idx)
                break

    def do_reorder(self, op, idx):
        f = op['file']
        inc = self.aw['files'][f]['include']
        new = [inc[i] for i in op['perm'] if i < len(inc)]
        if sorted(new) != sorted(inc):
            return ['reorder-skip']
        self.aw['files'][f]['include'] = new
        self.rerender()
        self.probe('include_order_permuted')
        return ['reorder', f, new]

    def do_renest(self, op, idx):
        child, newp = op['child'], op['new_parent']
        files = self.aw['files']
        if child not in files or newp not in files or child == newp or \
                child == self.aw['root']:
            return ['renest-skip']
        # no cycles: new parent must not be below child
        below = set(sg.file_order(self.aw, child))
        if newp in below:
            return ['renest-skip']
        for fd in files.values():
            if child in fd['include']:
                fd['include'].remove(child)
        pos = min(op.get('pos', 0), len(files[newp]['include']))
        files[newp]['include'].insert(pos, child)
        self.rerender()
        self.probe('include_renested')
        return ['renest', child, newp]

    def do_diamond(self, op, idx):
        """The same file included a second time from another parent: its
        data are merged twice (idempotence under loading)."""
        child, newp = op['child'], op['second_parent']
        files = self.aw['files']
        if child not in files or newp not in files or child == newp or \
                child == self.aw['root']:
            return ['diamond-skip']
        if newp in set(sg.file_order(self.aw, child)) or \
                child in files[newp]['include']:
            return ['diamond-skip']
        if len(sg.file_order(self.aw, self.aw['root'])) > 40:
            return ['diamond-skip']
        files[newp]['include'].append(child)
        self.rerender()
        self.probe('file_included_twice')
        return ['diamond', child, newp]

    def do_compare(self, op, idx):
        """Two loads of the same data (other order / nesting) agree."""
        a, b = self.libs.get(op['a']), self.libs.get(op['b'])
        if a is None or b is None or \
                a['data_version'] != b['data_version'] or \
                a['how'] != 'load' or b['how'] != 'load':
            return ['compare-skip']
        d = diff_lib(obs_lib(a['obs']),
                     dict((k, _as_model(v)) for k, v in
                          obs_lib(b['obs']).items()), 1e-12)
        for k, f, o, e in d[:1]:
            self.viol('order-independence', f,
                      'include-order-or-nesting-changes-%s' % f,
                      {'group': k, 'one': o, 'other': e}, idx)
        self.probe('two_orders_compared')
        return ['compare', len(d)]

    def do_update(self, op, idx):
        D, S = self.libs.get(op['dst']), self.libs.get(op['src'])
        if D is None or S is None or op['dst'] == op['src']:
            return ['update-skip']
        if D['data_version'] != S['data_version']:
            # loaded from two renderings of the world (a conflict injection
            # in between re-renders the datum in a file-independent form,
            # one ulp away): "the same datum" is only defined within one
            return ['update-skip-other-rendering']
        before = obs_lib(D['obs'])
        src_before = core.digest(obs_lib(S['obs']))
        out, _ = libops.record(D['obs'].Update, S['obs'], op['overwrite'])
        self.stats['merges'] += 1
        self.last_merge = dict(op, _ok='exc' not in out)
        after = obs_lib(D['obs'])
        if core.digest(obs_lib(S['obs'])) != src_before:
            self.viol('state-altered', 'merge-source',
                      'merge-changed-its-source', {'src': op['src']}, idx)
        exp = None
        if D['model'] is not None and S['model'] is not None:
            try:
                exp = sg.model_update(D['model'], S['model'], op['overwrite'])
                why = None
            except sg.Conflict as c:
                why = c
            if exp is not None:
                if 'exc' in out:
                    self.viol('model-refinement', 'merge-rejected',
                              'conflict-free-merge-rejected|%s'
                              % out.get('exc'),
                              {'outcome': out, 'overwrite': op['overwrite']},
                              idx)
                    D['model'] = None
                else:
                    D['model'] = exp
                    D['how'] = 'update' + ('-overwrite' if op['overwrite']
                                           else '')
                    self.check_lib(op['dst'], idx, 'update')
                    if op['overwrite']:
                        self.probe('merge_with_overwrite')
            else:
                self.probe('merge_expected_conflict_on_' + why.datum)
                if 'exc' not in out:
                    self.viol('model-refinement', 'accepted-conflict',
                              'update-accepted-conflict|%s' % why.datum,
                              {'group': why.key, 'datum': why.datum}, idx)
                    D['model'] = None
                elif out['exc'] != 'ReadOnlyDataError':
                    self.viol('model-refinement', 'wrong-error',
                              'conflict-surfaced-as-%s' % out['exc'],
                              {'outcome': out}, idx)
                    D['model'] = None
                else:
                    self.probe('rejected_merge')
                    # library-level merge is not atomic (the property does
                    # not say so), correlation-level is: every group is
                    # either untouched or fully merged, the conflicting
                    # one untouched.
                    newmodel = {}
                    for k in sorted(set(after) | set(D['model'])):
                        old = D['model'].get(k)
                        cands = []
                        if old is not None:
                            cands.append(('old', old))
                        if k in S['model']:
                            try:
                                cands.append(('merged', sg.model_merge(
                                    old, S['model'][k]) if old is not None
                                    else sg.rec_copy(S['model'][k])))
                            except sg.Conflict:
                                pass
                        hit = None
                        for tag, c in cands:
                            if k in after and not diff_record(after[k], c):
                                hit = (tag, c)
                                break
                        if hit is None and (k in after or old is not None):
                            self.viol('atomicity', 'torn-correlation',
                                      'rejected-merge-left-a-correlation-'
                                      'neither-old-nor-merged',
                                      {'group': k, 'observed': after.get(k),
                                       'old': old}, idx)
                            D['model'] = None
                            break
                        if hit is not None:
                            newmodel[k] = hit[1]
                    else:
                        D['model'] = newmodel
        D['digest'] = core.digest(obs_lib(D['obs']))
        return ['update', op['dst'], op['src'], op['overwrite'],
                out.get('exc')]

    def do_corr_update(self, op, idx):
        D, S = self.libs.get(op['dst']), self.libs.get(op['src'])
        if D is None or S is None or D['model'] is None or \
                S['model'] is None or op['dst'] == op['src'] or \
                D['data_version'] != S['data_version']:
            return ['corr-update-skip']
        keys = sorted(set(D['model']) & set(S['model']))
        if not keys:
            return ['corr-update-skip']
        k = keys[op['ki'] % len(keys)]
        if op.get('key') in keys:
            k = op['key']
        a = D['obs'][k]['thermochem']
        b = S['obs'][k]['thermochem']
        snap = libops.corr_tuple(a)
        src_snap = libops.corr_tuple(b)
        out, _ = libops.record(a.update, b, op['overwrite'])
        self.stats['merges'] += 1
        self.last_merge = dict(op, key=k, _ok='exc' not in out)
        if libops.corr_tuple(b) != src_snap:
            self.viol('state-altered', 'merge-source',
                      'merge-changed-its-source', {'group': k}, idx)
        try:
            exp = sg.model_merge(D['model'][k], S['model'][k],
                                 op['overwrite'])
        except sg.Conflict as c:
            exp = None
            why = c
        if exp is None:
            self.probe('corr_update_expected_conflict')
            if 'exc' not in out:
                self.viol('model-refinement', 'accepted-conflict',
                          'update-accepted-conflict|%s' % why.datum,
                          {'group': k}, idx)
                D['model'][k] = _as_model(obs_record(a))
            else:
                if out['exc'] != 'ReadOnlyDataError':
                    self.viol('model-refinement', 'wrong-error',
                              'conflict-surfaced-as-%s' % out['exc'],
                              {'outcome': out}, idx)
                # failure atomicity: bit-identical to its snapshot
                if libops.corr_tuple(a) != snap:
                    self.viol('atomicity', 'rejected-merge-changed-target',
                              'rejected-correlation-merge-changed-the-target',
                              {'group': k, 'before': snap,
                               'after': libops.corr_tuple(a)}, idx)
                self.probe('rejected_corr_update_checked_bit_identical')
        else:
            if 'exc' in out:
                self.viol('model-refinement', 'merge-rejected',
                          'conflict-free-merge-rejected|%s' % out['exc'],
                          {'group': k, 'outcome': out}, idx)
            else:
                D['model'][k] = exp
                D['how'] = 'corr_update'
                self.check_lib(op['dst'], idx, 'corr_update')
                # the internal interpolant must follow the fields
                temps = grid(exp)
                fresh = a.copy()
                for key, x, y in diff_props(props(a, temps),
                                            props(fresh, temps),
                                            abs_=1e-10 * scale_of(exp)):
                    self.viol('differential', 'stale-interpolant',
                              'merged-object-evaluates-unlike-its-own-copy|%s'
                              % key.split('@')[0],
                              {'group': k, 'at': key, 'merged': x, 'copy': y},
                              idx)
                    break
        D['digest'] = core.digest(obs_lib(D['obs']))
        return ['corr_update', k, op['overwrite'], out.get('exc')]

    def do_repeat(self, op, idx):
        """Merging the same data twice changes nothing."""
        lm = self.last_merge
        if lm is None:
            return ['repeat-skip']
        D = self.libs.get(lm['dst'])
        S = self.libs.get(lm['src'])
        if D is None or S is None:
            return ['repeat-skip']
        before = obs_lib(D['obs'])
        if lm['op'] == 'update':
            out, _ = libops.record(D['obs'].Update, S['obs'], lm['overwrite'])
        else:
            k = lm['key']
            out, _ = libops.record(D['obs'][k]['thermochem'].update,
                                   S['obs'][k]['thermochem'],
                                   lm['overwrite'])
        after = obs_lib(D['obs'])
        if D['model'] is not None and 'exc' not in out:
            d = diff_lib(after, dict((k, _as_model(v))
                                     for k, v in before.items()), 1e-12)
            for k, f, o, e in d[:1]:
                self.viol('idempotence', f, 'repeated-merge-changes-%s' % f,
                          {'group': k, 'before': e, 'after': o}, idx)
            self.probe('idempotent_merge_checked')
        elif D['model'] is not None and 'exc' in out and \
                lm.get('_ok'):
            self.viol('idempotence', 'rejected',
                      'repeated-merge-rejected|%s' % out['exc'],
                      {'outcome': out}, idx)
        D['digest'] = core.digest(after)
        return ['repeat', out.get('exc')]

    def do_inject_conflict(self, op, idx):
        """Fault: a second, different value for one datum in another file."""
        f = op['file']
        fd = self.aw['files'].get(f)
        if fd is None:
            return ['inject-skip']
        cands = conflict_candidates(self.aw, f)
        if not cands:
            return ['inject-skip']
        if 'key' in op:
            sel = [c for c in cands if c[0] == op['src_file'] and
                   c[1]['key'] == op['key'] and c[2] == op['datum'] and
                   c[3] == op.get('T')]
            if not sel:
                return ['inject-skip']
            g, e, d, t = sel[0]
        else:
            g, e, d, t = cands[op['ci'] % len(cands)]
        factor = op['factor']
        tgt = None
        for e2 in fd['entries']:
            if e2['key'] == e['key']:
                tgt = e2
        if tgt is None:
            tgt = {'key': e['key'], 'kind': e['kind'],
                   'spelling': e['spelling'], 'H': None, 'S': None, 'Cp': {},
                   'range': None}
            fd['entries'].append(tgt)
        near = abs(factor - 1.0) < 1e-6     # keep every digit
        if d == 'Cp':
            tgt['Cp'][t] = e['Cp'][t] * factor if near else \
                sg.sig(e['Cp'][t] * factor)
            tref = 298.15 if self.aw['T_ref'] is None else self.aw['T_ref']
            ts = [float(x) for x in tgt['Cp']] + [tref]
            r = tgt['range'] or [min(ts), max(ts)]
            tgt['range'] = [min(r[0], min(ts)), max(r[1], max(ts))]
        else:
            tgt[d] = e[d] * factor if near else sg.sig(e[d] * factor)
        # the two copies now differ, so they need file-independent,
        # self-contained forms
        key = '%s|%s' % (e['key'], d)
        p = self.pres['data'].get(key)
        if p is None or p['form'] == 'bare':
            self.pres['data'][key] = {
                'form': 'explicit',
                'unit': 'kJ/mol' if d == 'H' else 'J/(mol*K)'}
        self.data_version += 1
        self.rerender()
        self.probe('conflict_injected_on_' + d)
        return ['inject_conflict', f, e['key'], d]

    def do_dup_spelling(self, op, idx):
        """Fault: one group under two spellings in one file."""
        cands = []
        for f, fd in sorted(self.aw['files'].items()):
            for e in fd['entries']:
                if e['kind'] == 'group' and e['spelling'].count('(') >= 2:
                    cands.append((f, e))
        if not cands:
            return ['dup-skip']
        f, e = cands[op['ci'] % len(cands)]
        import re
        parts = re.findall(r'\([^)]*\)\d*', e['spelling'])
        csg = e['spelling'][:e['spelling'].index('(')]
        alt = csg + ''.join(reversed(parts))
        if alt == e['spelling']:
            # expand a repeat count instead
            m = re.search(r'(\([^)]*\))(\d+)', e['spelling'])
            if not m:
                return ['dup-skip']
            alt = e['spelling'].replace(m.group(0),
                                        m.group(1) * int(m.group(2)), 1)
        e2 = copy.deepcopy(e)
        e2['spelling'] = alt
        e2['dup_of'] = e['spelling']
        self.aw['files'][f]['entries'].append(e2)
        self.data_version += 1
        self.rerender()
        self.probe('duplicate_spelling_injected')
        return ['dup_spelling', f, e['spelling'], alt]

    def do_malformed_row(self, op, idx):
        """Fault: one heat-capacity row is damaged (truncated to one entry,
        a third entry, a garbled number).  The file must be rejected, also
        on a retry; never loaded without that row."""
        order = sg.file_order(self.aw, self.aw['root'])
        cands = [f for f in order
                 if any(e['Cp'] for e in self.aw['files'][f]['entries'])]
        if not cands:
            return ['malformed-skip']
        f = cands[op['fi'] % len(cands)]
        self.malformed = (f, [op['how'], op['ri']])
        self.malformed_applied = False
        self.rerender()
        outs = []
        if self.malformed_applied:
            self.probe('malformed_row_' + op['how'])
            for attempt in range(2):
                out, lib = self.load(ROOT + '/' + self.aw['root'])
                outs.append(out.get('exc'))
                if lib is not None:
                    self.viol('malformed-datum', 'accepted',
                              'damaged-row-accepted|%s%s'
                              % (op['how'], '|on-retry' if attempt else ''),
                              {'file': f, 'how': op['how']}, idx)
                    break
        self.malformed = None
        self.rerender()
        return ['malformed_row', f, op['how'], outs]

    def do_set_fault(self, op, idx):
        order = sg.file_order(self.aw, self.aw['root'])
        f = order[op['fi'] % len(order)]
        self.fs.faults = [{'kind': op['kind'], 'path': ROOT + '/' + f,
                           'times': op.get('times', 1)}]
        self.probe('io_fault_' + op['kind'])
        return ['set_fault', op['kind'], f]

    def do_clear_faults(self, op, idx):
        self.fs.faults = []
        return ['clear_faults']

    # ------------------------------------------------------------- C12
    def do_present(self, op, idx):
        """Switch to another unit presentation of the same data."""
        self.pres = copy.deepcopy(self.spec['variants'][op['variant']])
        self.dropped = {}
        self.rerender()
        return ['present', op['variant'], self.pres['style']]

    def do_props_equal(self, op, idx):
        """C12: two presentations of one world evaluate alike, as plain
        numbers."""
        a, b = self.libs.get(op['a']), self.libs.get(op['b'])
        if a is None or b is None or a['model'] is None:
            return ['props-skip']
        n = 0
        for k in sorted(a['model']):
            ca = libops.pset(a['obs'][k], 'thermochem')
            cb = libops.pset(b['obs'][k], 'thermochem')
            if ca is None or cb is None:
                continue
            temps = grid(a['model'][k])
            pa, pb = props(ca, temps), props(cb, temps)
            for name, p in ((op['a'], pa), (op['b'], pb)):
                bad = nonplain_props(p)
                if bad:
                    self.viol('plain-numbers', 'non-plain',
                              'property-is-not-a-plain-number|%s'
                              % bad[0].split('@')[0],
                              {'group': k, 'at': bad[0],
                               'value': p[bad[0]]}, idx)
            for key, x, y in diff_props(
                    pa, pb, abs_=1e-10 * scale_of(a['model'][k]))[:1]:
                zero = any(v == 0 for v in (a['model'][k]['H'],
                                            a['model'][k]['S'])
                           if v is not None) or \
                    any(v == 0 for v in a['model'][k]['Cp'].values())
                self.viol('presentation-independence', 'props-differ',
                          'presentations-evaluate-differently|%s|%s'
                          % (key.split('@')[0], 'zero' if zero else 'value'),
                          {'group': k, 'at': key, op['a']: x, op['b']: y},
                          idx)
            n += 1
        self.probe('presentations_compared')
        return ['props_equal', n]

    def do_drop_unit(self, op, idx):
        """Fault: a dimensional value for which no unit is available."""
        cands = []
        for f, fd in sorted(self.aw['files'].items()):
            blk = self.pres['files'][f]['units']
            if not blk:
                continue
            for e in fd['entries']:
                for d, kind in (('H', 'molar enthalpy'), ('S', 'molar entropy'),
                                ('Cp', 'molar heat capacity')):
                    has = (e[d] is not None) if d != 'Cp' else bool(e['Cp'])
                    p = self.pres['data'].get('%s|%s' % (e['key'], d))
                    if has and p and p['form'] == 'bare':
                        cands.append((f, kind))
        if not cands:
            return ['drop-unit-skip']
        f, kind = cands[op['ci'] % len(cands)]
        kinds = [kind]
        if op.get('whole_block'):
            kinds = ['molar enthalpy', 'molar entropy', 'molar heat capacity']
        self.dropped = {f: kinds}
        self.garbled = op.get('garble')     # unit string nobody can evaluate
        self.rerender()
        self.probe('unit_garbled' if self.garbled else 'unit_dropped')
        outs = []
        # the failing load is retried: a failure must not be "remembered"
        # into an acceptance
        for attempt in range(2):
            out, lib = self.load(ROOT + '/' + self.aw['root'])
            outs.append(out.get('exc'))
            if lib is not None:
                self.viol('missing-unit', 'accepted',
                          'value-without-%s-unit-accepted|%s%s'
                          % ('evaluable' if self.garbled else 'any', kind,
                             '|on-retry' if attempt else ''),
                          {'file': f, 'kind': kind, 'attempt': attempt}, idx)
                break
        self.dropped = {}
        self.garbled = None
        return ['drop_unit', f, kinds, outs]

    # ------------------------------------------------------------- C18
    def do_mutate(self, op, idx):
        """C18: the correlation object changes between two exports (the
        store has a history): what is written must be its current state."""
        L = self.libs.get(op['lib'])
        if L is None:
            return ['mutate-skip']
        keys = sorted(L['model'])
        if not keys:
            return ['mutate-skip']
        k = keys[op['ki'] % len(keys)]
        corr = L['obs'][k]['thermochem']
        how = op['how']

        def go():
            if how == 'del_H':
                corr.del_ND_H_ref()
            elif how == 'del_S':
                corr.del_ND_S_ref()
            elif how == 'set_range':
                r = corr.get_range()
                if r is None:
                    corr.set_range((100.0, 3000.0))
                else:
                    corr.set_range((float(r[0]) - 25.0, float(r[1]) + 125.0))
            elif how == 'set_range_without_tref':
                # legal for a correlation without a heat-capacity table: the
                # range need not contain the reference temperature
                if not corr.ND_Cp_data:
                    t = float(corr.T_ref)
                    corr.set_range((t + 1.85, max(t + 500.0, 1500.0)))
            elif how == 'del_Cp_point':
                ts = sorted(corr.ND_Cp_data or {})
                if ts:
                    corr.del_ND_Cp(ts[op.get('ti', 0) % len(ts)])
            elif how == 'del_Cp_all':
                corr.del_ND_Cp()
            elif how == 'update_from_other':
                other = L['obs'][keys[(op['ki'] + 1) % len(keys)]]['thermochem']
                corr.update(other, True)
            elif how == 'update_rejected':
                # a merge that is (most likely) rejected: another group's
                # data without overwrite.  Whatever it leaves behind is the
                # object's state, and that is what must be written.
                other = L['obs'][keys[(op['ki'] + 1 + op.get('ti', 0))
                                      % len(keys)]]['thermochem']
                corr.update(other, False)
        out, _ = libops.record(go)
        L['model'] = dict((g, _as_model(v)) for g, v in
                          obs_lib(L['obs']).items()
                          if not any(isinstance(x, dict) for x in
                                     [v['T_ref'], v['H'], v['S']]))
        L['digest'] = core.digest(obs_lib(L['obs']))
        self.probe('mutated_between_exports_' + how)
        return ['mutate', k, how, out.get('exc')]

    def do_export(self, op, idx):
        L = self.libs.get(op['lib'])
        if L is None:
            return ['export-skip']
        keys = sorted(L['model'])
        if not keys:
            return ['export-skip']
        k = keys[op['ki'] % len(keys)]
        corr = L['obs'][k]['thermochem']
        src = obs_record(corr)
        out, text = libops.record(corr.yaml_format, op['units'])
        if text is None:
            self.viol('round-trip', 'format-failed',
                      'yaml_format-raised|%s@%s' % (out.get('exc'), ':'.join(
                          out.get('site', []))),
                      {'group': k, 'units': op['units'], 'outcome': out,
                       'record': src}, idx)
            return ['export-failed', k, out.get('exc')]
        strat = export_strata(src, op['units'], text)
        for s in strat:
            self.probe('export_' + s)
        got = {}
        # (a) read back directly
        from pgradd import yaml_io

        def direct():
            return yaml_io.load(yaml_io.parse(text), {}, tag='!ThermochemGroup')
        o1, c1 = libops.record(direct)
        got['direct'] = (o1, c1)
        # (b) embedded as a group entry of a library file
        body = '\n'.join('            ' + ln for ln in text.split('\n'))
        self.fs.files['/sim/exp/library.yaml'] = (
            "groups:\n    'X(Y)':\n        'thermochem':\n" + body + '\n')
        self.fs.files['/sim/exp/scheme.yaml'] = sg.SCHEME_TEXT
        o2, lib2 = self.load('/sim/exp/library.yaml')
        c2 = libops.pset(lib2['X(Y)'], 'thermochem') if lib2 is not None else None
        got['embedded'] = (o2, c2)
        dim = bool(op['units'].get('molar enthalpy'))
        for way in ('direct', 'embedded'):
            o, c = got[way]
            tag = '|'.join(s for s in strat if s in ('exp-notation', 'zero'))
            if c is None:
                self.viol('round-trip', 'unreadable',
                          'exported-text-unreadable|%s|%s|%s'
                          % (way, 'dimensional' if dim else 'nd', tag),
                          {'group': k, 'units': op['units'], 'text': text,
                           'outcome': o}, idx)
                continue
            back = obs_record(c)
            for f, a, b in diff_export(src, back, op['units']):
                self.viol('round-trip', f,
                          'round-trip-changes-%s|%s|%s'
                          % (f, 'dimensional' if dim else 'nd', tag),
                          {'group': k, 'way': way, 'units': op['units'],
                           'text': text, 'written': a, 'read_back': b}, idx)
                break
        self.probe('exported')
        return ['export', k, sorted(op['units'].items()),
                core.digest(text)[:12]]


def conflict_candidates(aw, f):
    """Data of other files that could be repeated, altered, in file f."""
    cands = []
    for g in sorted(aw['files']):
        if g == f:
            continue
        for e in aw['files'][g]['entries']:
            for d in ('H', 'S'):
                if e[d] is not None and e[d] != 0:
                    cands.append((g, e, d, None))
            for t in sorted(e['Cp'], key=float):
                if e['Cp'][t] != 0:
                    cands.append((g, e, 'Cp', t))
    return cands


MUTATIONS = ['del_H', 'del_S', 'set_range', 'del_Cp_point', 'del_Cp_all',
             'update_from_other', 'update_rejected', 'update_rejected',
             'set_range_without_tref']


sg_block_kinds = ('molar enthalpy', 'molar entropy', 'molar heat capacity',
                  'temperature')


def ev_target(op):
    if op['op'] in ('update', 'corr_update'):
        return op['dst']
    if op['op'] == 'mutate':
        return op['lib']
    if op['op'] == 'load':
        return op.get('as')
    return None


def _as_model(rec):
    return {'T_ref': rec['T_ref'], 'H': rec['H'], 'S': rec['S'],
            'Cp': dict(rec['Cp']), 'range': tuple(rec['range'])
            if rec['range'] else None}


def export_strata(src, units, text):
    out = []
    vals = [src['H'], src['S']] + list(src['Cp'].values())
    if any(v == 0 for v in vals if isinstance(v, float)):
        out.append('zero')
    if src['H'] is None or src['S'] is None or not src['Cp']:
        out.append('missing-part')
    import re
    if re.search(r'\d[eE][-+]?\d+ ', text):
        out.append('exp-notation')
    return out


def diff_export(src, back, units):
    """C18 oracle: temperatures to 6 significant digits, values exactly in
    the non-dimensional form, to 6 significant digits in the dimensional
    form; absent stays absent, zero stays present."""
    out = []
    six = 6e-6

    def cmp(name, a, b, rel):
        if isinstance(a, dict) or isinstance(b, dict):
            out.append((name, a, b))
        elif (a is None) != (b is None):
            out.append((name, a, b))
        elif a is not None and not core.rel_close(a, b, rel, 0.0):
            out.append((name, a, b))
    cmp('T_ref', src['T_ref'], back['T_ref'], six)
    if (src['range'] is None) != (back['range'] is None):
        out.append(('range', src['range'], back['range']))
    elif src['range'] is not None:
        cmp('range', src['range'][0], back['range'][0], six)
        cmp('range', src['range'][1], back['range'][1], six)
    cmp('H', src['H'], back['H'], six if units.get('molar enthalpy') else 0.0)
    cmp('S', src['S'], back['S'], six if units.get('molar entropy') else 0.0)
    st = sorted(src['Cp'])
    bt = sorted(back['Cp'])
    if len(st) != len(bt):
        out.append(('Cp-temperatures', st, bt))
    else:
        for a, b in zip(st, bt):
            cmp('Cp-temperatures', a, b, six)
            cmp('Cp', src['Cp'][a], back['Cp'][b],
                six if units.get('molar heat capacity') else 0.0)
    return out


# ------------------------------------------------------------- generation

EXPORT_UNITS = [
    {},
    {'molar enthalpy': 'kcal/mol', 'molar entropy': 'cal/(mol*K)',
     'molar heat capacity': 'cal/(mol*K)'},
    {'molar enthalpy': 'kJ/mol', 'molar entropy': 'J/(mol*K)',
     'molar heat capacity': 'J/(mol*K)'},
    {'molar enthalpy': 'J/mol', 'molar entropy': 'J/(mol*K)',
     'molar heat capacity': 'J/(mol*K)'},
    {'molar enthalpy': 'kJ/mol'},
    {'molar entropy': 'cal/(mol*K)'},
]
EXPORT_T = [None, None, 'K', 'mK', 'kK']


def gen_spec(run_seed, prop):
    rng = core.rng_for(prop + '-run', run_seed)
    cfg = rng.random()
    faulted = cfg >= 0.5
    if prop == 'C13':
        zero = rng.random() < 0.3
        aw = sg.gen_abstract(rng, {'dup': True, 'zero': zero})
        pres = sg.gen_presentation(rng, aw)
        if zero:
            _zero_as_nd(aw, pres)
        ops = []
        n = 0
        files = sorted(aw['files'])
        fault_kinds = []
        if faulted:
            fault_kinds = rng.sample(['conflict', 'conflict', 'conflict',
                                      'dup_spelling', 'ENOENT',
                                      'EACCES', 'EIO', 'EIO_read',
                                      'transient', 'malformed_row'],
                                     1 if cfg < 0.9 else 2)
            fault_kinds = sorted(set(fault_kinds))
        ops.append({'op': 'load', 'as': 'L0'})
        length = rng.randrange(3, 26)
        nlib = 1
        while len(ops) < length:
            r = rng.random()
            if fault_kinds and rng.random() < 0.3:
                r = 0.99
            if r < 0.22:
                f = rng.choice(files)
                k = len(aw['files'][f]['include'])
                perm = list(range(max(k, 1)))
                rng.shuffle(perm)
                ops.append({'op': 'reorder', 'file': f, 'perm': perm})
                ops.append({'op': 'load', 'as': 'L%d' % nlib})
                ops.append({'op': 'compare', 'a': 'L0', 'b': 'L%d' % nlib})
                nlib += 1
            elif r < 0.27:
                ops.append({'op': 'diamond', 'child': rng.choice(files),
                            'second_parent': rng.choice(files)})
                ops.append({'op': 'load', 'as': 'L%d' % nlib})
                ops.append({'op': 'compare', 'a': 'L0', 'b': 'L%d' % nlib})
                nlib += 1
            elif r < 0.38:
                ops.append({'op': 'renest', 'child': rng.choice(files),
                            'new_parent': rng.choice(files),
                            'pos': rng.randrange(3)})
                ops.append({'op': 'load', 'as': 'L%d' % nlib})
                ops.append({'op': 'compare', 'a': 'L0', 'b': 'L%d' % nlib})
                nlib += 1
            elif r < 0.58:
                # two independently loaded sub-trees, then merge
                a, b = rng.choice(files), rng.choice(files)
                ops.append({'op': 'load', 'root': a, 'as': 'L%d' % nlib,
                            'grid': False})
                ops.append({'op': 'load', 'root': b, 'as': 'L%d' % (nlib + 1),
                            'grid': False})
                ops.append({'op': 'update', 'dst': 'L%d' % nlib,
                            'src': 'L%d' % (nlib + 1),
                            'overwrite': rng.random() < 0.4})
                if rng.random() < 0.5:
                    ops.append({'op': 'repeat'})
                if rng.random() < 0.35:
                    # the source grows by a third sub-tree and is merged
                    # into the same target once more
                    c = rng.choice(files)
                    ops.append({'op': 'load', 'root': c,
                                'as': 'L%d' % (nlib + 2), 'grid': False})
                    ops.append({'op': 'update', 'dst': 'L%d' % (nlib + 1),
                                'src': 'L%d' % (nlib + 2),
                                'overwrite': rng.random() < 0.5})
                    ops.append({'op': 'update', 'dst': 'L%d' % nlib,
                                'src': 'L%d' % (nlib + 1),
                                'overwrite': rng.random() < 0.4})
                    nlib += 1
                nlib += 2
            elif r < 0.72 and nlib >= 2:
                ops.append({'op': 'corr_update',
                            'dst': 'L%d' % rng.randrange(nlib),
                            'src': 'L%d' % rng.randrange(nlib),
                            'ki': rng.randrange(50),
                            'overwrite': rng.random() < 0.4})
                if rng.random() < 0.5:
                    ops.append({'op': 'repeat'})
            elif r < 0.80 and nlib >= 2:
                ops.append({'op': 'update', 'dst': 'L%d' % rng.randrange(nlib),
                            'src': 'L%d' % rng.randrange(nlib),
                            'overwrite': rng.random() < 0.5})
            elif fault_kinds:
                k = rng.choice(fault_kinds)
                if k == 'conflict':
                    f = rng.choice(files)
                    cands = conflict_candidates(aw, f)
                    if not cands:
                        continue
                    g, e, d, t = rng.choice(cands)
                    ops.append({'op': 'inject_conflict', 'file': f,
                                'src_file': g, 'key': e['key'], 'datum': d,
                                'T': t,
                                # from a factor of two down to a few
                                # parts in 10^10 (still 10^5 times the
                                # loader's own sameness tolerance)
                                'factor': rng.choice([1.000001, 1.01, 0.5,
                                                      -1.0, 2.0, 1 + 3e-10,
                                                      1 + 4e-9, 1 - 2e-11])})
                    ops.append({'op': 'load', 'as': 'L%d' % nlib})
                    # the two copies, loaded separately, then merged
                    ops.append({'op': 'load', 'root': g,
                                'as': 'L%d' % (nlib + 1), 'grid': False})
                    ops.append({'op': 'load', 'root': f,
                                'as': 'L%d' % (nlib + 2), 'grid': False})
                    a, b = 'L%d' % (nlib + 1), 'L%d' % (nlib + 2)
                    if rng.random() < 0.5:
                        a, b = b, a
                    first = rng.random()
                    if first < 0.5:
                        ops.append({'op': 'corr_update', 'dst': a, 'src': b,
                                    'ki': 0, 'key': e['key'],
                                    'overwrite': rng.random() < 0.3})
                        if rng.random() < 0.5:
                            ops.append({'op': 'repeat'})
                    ops.append({'op': 'update', 'dst': a, 'src': b,
                                'overwrite': rng.random() < 0.4})
                    if rng.random() < 0.4:
                        # a rejected merge followed by a successful one
                        ops.append({'op': 'update', 'dst': a, 'src': b,
                                    'overwrite': True})
                        ops.append({'op': 'repeat'})
                    nlib += 3
                elif k == 'malformed_row':
                    ops.append({'op': 'malformed_row',
                                'fi': rng.randrange(20),
                                'ri': rng.randrange(50),
                                'how': rng.choice(['truncated', 'third',
                                                   'garbled'])})
                    ops.append({'op': 'load', 'as': 'L%d' % nlib})
                    ops.append({'op': 'compare', 'a': 'L0',
                                'b': 'L%d' % nlib})
                    nlib += 1
                elif k == 'dup_spelling':
                    ops.append({'op': 'dup_spelling',
                                'ci': rng.randrange(1000)})
                    ops.append({'op': 'load', 'as': 'L%d' % nlib})
                    nlib += 1
                else:
                    kind = 'ENOENT' if k == 'transient' else k
                    times = rng.randrange(1, 3) if k == 'transient' else 1
                    ops.append({'op': 'set_fault', 'kind': kind,
                                'fi': rng.randrange(20), 'times': times})
                    for _ in range(times):
                        ops.append({'op': 'load', 'as': 'L%d' % nlib})
                    ops.append({'op': 'clear_faults'})
                    # retry after the fault is gone equals the model
                    ops.append({'op': 'load', 'as': 'L%d' % nlib})
                    nlib += 1
            else:
                ops.append({'op': 'load', 'as': 'L%d' % nlib})
                nlib += 1
        return {'property': prop, 'run_seed': run_seed, 'aw': aw,
                'pres': pres, 'ops': ops,
                'config': {'faults': fault_kinds, 'zero': zero}}
    if prop == 'C12':
        zero = rng.random() < 0.3
        aw = sg.gen_abstract(rng, {'dup': False, 'zero': zero})
        nv = rng.randrange(2, 4)
        styles = rng.sample(['block', 'explicit', 'nd', 'mixed', 'mixed',
                             'block'], nv)
        variants = []
        for i, st in enumerate(styles):
            pv = sg.gen_presentation(rng, aw, st)
            if i > 0:
                for f in pv['files']:
                    pv['files'][f]['T_unit'] = rng.choice(['K', 'K', 'mK',
                                                           'kK'])
                    if pv['files'][f]['T_unit'] != 'K':
                        pv['files'][f]['T_bare'] = False
            variants.append(pv)
        ops = []
        for i in range(nv):
            ops.append({'op': 'present', 'variant': i})
            ops.append({'op': 'load', 'as': 'V%d' % i})
        for i in range(1, nv):
            ops.append({'op': 'props_equal', 'a': 'V0', 'b': 'V%d' % i})
        fault_kinds = []
        if faulted:
            fault_kinds = ['missing-unit']
            vi = rng.randrange(nv)
            ops.append({'op': 'present', 'variant': vi})
            # first a good load of this presentation (loaders, contexts and
            # caches have seen valid units), then the faulty file
            ops.append({'op': 'load', 'as': 'G'})
            ops.append({'op': 'drop_unit', 'ci': rng.randrange(1000),
                        'whole_block': rng.random() < 0.3,
                        'garble': rng.choice([None, None, 'kJ/mool',
                                              'furlongs', 'kcal//mol',
                                              'J/(mol'])})
            # and the good file again afterwards
            ops.append({'op': 'present', 'variant': vi})
            ops.append({'op': 'load', 'as': 'G2'})
            ops.append({'op': 'props_equal', 'a': 'G', 'b': 'G2'})
        return {'property': prop, 'run_seed': run_seed, 'aw': aw,
                'pres': variants[0], 'variants': variants, 'ops': ops,
                'config': {'faults': fault_kinds, 'zero': zero,
                           'styles': styles}}
    if prop == 'C18':
        zero = rng.random() < 0.4
        aw = sg.gen_abstract(rng, {'dup': False, 'zero': zero,
                                   'max_groups': 4})
        if rng.random() < 0.3:
            _big_magnitudes(rng, aw)
        pres = sg.gen_presentation(rng, aw)
        if zero:
            _zero_as_nd(aw, pres)
        if rng.random() < 0.2:
            _round_nd_values(rng, aw, pres)
        ops = [{'op': 'load', 'as': 'L0'}]
        for i in range(rng.randrange(2, 9)):
            units = dict(rng.choice(EXPORT_UNITS))
            t = rng.choice(EXPORT_T)
            if t:
                units['temperature'] = t
            ki = rng.randrange(50)
            ops.append({'op': 'export', 'lib': 'L0', 'ki': ki,
                        'units': units})
            # the same object, changed, written again in the same units
            while rng.random() < 0.45:
                ops.append({'op': 'mutate', 'lib': 'L0', 'ki': ki,
                            'how': rng.choice(MUTATIONS),
                            'ti': rng.randrange(8)})
                ops.append({'op': 'export', 'lib': 'L0', 'ki': ki,
                            'units': units})
        return {'property': prop, 'run_seed': run_seed, 'aw': aw,
                'pres': pres, 'ops': ops,
                'config': {'faults': [], 'zero': zero}}
    raise ValueError(prop)


def _zero_as_nd(aw, pres):
    """Zero-valued data are written non-dimensionally so that loading them
    (C12's question) is not what this run tests."""
    for fd in aw['files'].values():
        for e in fd['entries']:
            for d in ('H', 'S'):
                if e[d] == 0:
                    pres['data']['%s|%s' % (e['key'], d)] = {'form': 'nd',
                                                             'unit': None}
            if any(v == 0 for v in e['Cp'].values()):
                pres['data']['%s|Cp' % e['key']] = {'form': 'nd',
                                                    'unit': None}


def _round_nd_values(rng, aw, pres):
    """Stratum: non-dimensional values whose shortest repr is exponent
    notation with a one-digit mantissa (1e-05, -3e-07, 2e+16): the writer's
    '%r' then has no decimal point."""
    tref = 298.15 if aw['T_ref'] is None else aw['T_ref']
    picks = [1e-05, -3e-07, 2e+16, 5e-06, -4e-05, 7e-10]
    for fd in aw['files'].values():
        for e in fd['entries']:
            d = rng.choice(['H', 'S', 'Cp'])
            nd = rng.choice(picks)
            if d == 'H' and e['H'] is not None:
                e['H'] = nd * sg.R_GAS * tref
            elif d == 'S' and e['S'] is not None:
                e['S'] = nd * sg.R_GAS
            elif d == 'Cp' and e['Cp']:
                t = rng.choice(sorted(e['Cp']))
                e['Cp'][t] = abs(nd) * sg.R_GAS
            else:
                continue
            pres['data']['%s|%s' % (e['key'], d)] = {'form': 'nd',
                                                     'unit': None}
    aw.setdefault('strata', []).append('one_digit_mantissa')


def _big_magnitudes(rng, aw):
    for fd in aw['files'].values():
        for e in fd['entries']:
            if e['H'] is not None and rng.random() < 0.5:
                e['H'] = sg.sig(e['H'] * rng.choice([10.0, 100.0, 1e-6]))
            if e['S'] is not None and rng.random() < 0.3:
                e['S'] = sg.sig(e['S'] * 1e-5)


def plan(tier, verif_seed, prop):
    n = {'quick': 1000, 'thorough': 12000 if prop == 'C13' else 24000}[tier]
    n = int(os.environ.get('VERIF_STORE_RUNS', n))
    chunk = 20 if tier == 'quick' else 100
    seeds = [core.H(verif_seed, prop, j) for j in range(n)]
    tasks = [{'id': '%s-w-%d' % (prop, j), 'prop': prop,
              'seeds': seeds[j:j + chunk]} for j in range(0, n, chunk)]
    if prop == 'C12':
        nt = {'quick': 120, 'thorough': 4000}[tier]
        ts = [core.H(verif_seed, 'C12-tref', j) for j in range(nt)]
        tasks.append({'id': 'C12-tref-fixed', 'prop': prop,
                      'tref_fixed': list(range(len(TREF_FIXED)))})
        for j in range(0, nt, 40 if tier == 'quick' else 200):
            tasks.append({'id': 'C12-tref-%d' % j, 'prop': prop,
                          'tref_seeds': ts[j:j + (40 if tier == 'quick'
                                                  else 200)]})
    if prop == 'C18':
        from .c15_history import SHIPPED
        libs = SHIPPED if tier == 'thorough' else SHIPPED
        for lib in libs:
            tasks.append({'id': 'C18-shipped-%s' % lib, 'prop': prop,
                          'shipped': lib,
                          'stride': 1 if tier == 'thorough' else 7})
    return tasks


ISOLATE_TASKS = True       # a task is one process lifetime (sim/runner.py)


def spec_history(spec):
    """The histories that ran before this one in its process lifetime (as
    explicit specs)."""
    if spec.get('history') is not None:
        return list(spec['history'])
    ht = spec.get('history_task')
    if ht:
        return [gen_spec(s, ht['prop']) for s in ht['seeds']]
    return []


def execute_spec(spec):
    """In a process that has loaded nothing yet."""
    if 'shipped' in spec:
        r = run_shipped_export({'id': 'replay', 'shipped': spec['shipped'],
                                'only': spec.get('group')})
        return r['violations'], r['digest'], None
    if 'tref_split' in spec:
        r = run_tref_split(spec['tref_split'], 'replay')
        return r['violations'], r['digest'], None
    for h in spec_history(spec):
        Machine(h, h['property']).run()
    m = Machine(spec, spec['property']).run()
    return m.viols, m.log.digest(), m


def shape_signature(spec):
    """Distinct-run measure: tree shape, presentation vector, fault kinds,
    merge/overwrite pattern."""
    aw = spec['aw']
    shape = sorted((f, len(fd['include']), len(fd['entries']))
                   for f, fd in aw['files'].items())
    pv = sorted((k, v['form']) for k, v in spec['pres']['data'].items())
    opsig = [(o['op'], o.get('overwrite')) for o in spec['ops']]
    return core.digest([shape, pv, spec['config'], opsig,
                        aw.get('strata')])[:16]


def run_task(task):
    prop = task['prop']
    if 'shipped' in task:
        return [run_shipped_export(task)]
    if 'tref_fixed' in task:
        return [run_tref_split(gen_tref_split(
            core.H('tref-fixed', i), TREF_FIXED[i]), 'C12-tref-fixed-%d' % i)
            for i in task['tref_fixed']]
    if 'tref_seeds' in task:
        return [run_tref_split(gen_tref_split(sd), 'C12-tref-%d' % sd)
                for sd in task['tref_seeds']]
    results = []
    for pos, seed in enumerate(task['seeds']):
        spec = gen_spec(seed, prop)
        viols, dig, m = execute_spec(spec)
        by = {}
        kept = []
        for v in viols:
            by[v['signature']] = by.get(v['signature'], 0) + 1
            if by[v['signature']] == 1:
                # with what this process ran before (seeds: the specs are
                # regenerated; the shrinker drops what is not needed)
                v['spec'] = dict(spec, history_task={
                    'prop': prop, 'seeds': list(task['seeds'][:pos])})
                v['run'] = '%s-%d' % (prop, seed)
                kept.append(v)
        fired = dict(m.fs.fired_counts)
        for p in m.probes:
            if p.endswith('_injected') or p.startswith('conflict_injected') \
                    or p == 'unit_dropped':
                fired[p] = fired.get(p, 0) + m.probes[p]
        results.append({
            'id': '%s-%d' % (prop, seed), 'digest': dig, 'violations': kept,
            'violation_counts': by, 'stats': m.stats, 'probes': m.probes,
            'fired': fired, 'shape': shape_signature(spec),
            'nontrivial': m.stats['loads'] >= 1 and (
                m.stats['merges'] >= 1 or len(spec['aw']['files']) > 1
                or prop != 'C13'),
            'faulted': bool(spec['config']['faults']),
            'strata': spec['aw'].get('strata', []),
            'sample': {'config': spec['config'],
                       'files': dict((f, {'include': fd['include'],
                                          'groups': [e['spelling'] for e in
                                                     fd['entries']]})
                                     for f, fd in spec['aw']['files'].items()),
                       'ops': spec['ops'][:10], 'n_ops': len(spec['ops'])},
        })
    return results


def run_shipped_export(task):
    """C18, finite part: every group of a shipped library is exported in
    every unit choice and read back directly."""
    from pgradd import yaml_io
    lib = libops.load_library(task['shipped'])
    names = sorted(str(g) for g in lib)[::task.get('stride', 1)]
    if task.get('only'):
        names = [task['only']]
    log = core.EventLog()
    viols = []
    n = 0
    probes = {}
    for k in names:
        corr = libops.pset(lib[k], 'thermochem')
        if corr is None:
            continue
        src = obs_record(corr)
        for ui, units in enumerate(EXPORT_UNITS[:4]):
            for t in (None, 'mK'):
                u = dict(units)
                if t:
                    u['temperature'] = t
                out, text = libops.record(corr.yaml_format, u)
                n += 1
                dim = bool(u.get('molar enthalpy'))
                if text is None:
                    viols.append(core.violation(
                        'C18', 'round-trip', 'format-failed',
                        'yaml_format-raised|%s@%s' % (out.get('exc'), ':'.join(
                            out.get('site', []))),
                        {'library': task['shipped'], 'group': k, 'units': u,
                         'record': src}))
                    continue
                strat = export_strata(src, u, text)
                for s in strat:
                    probes['export_' + s] = probes.get('export_' + s, 0) + 1
                tag = '|'.join(s for s in strat
                               if s in ('exp-notation', 'zero'))

                def direct():
                    return yaml_io.load(yaml_io.parse(text), {},
                                        tag='!ThermochemGroup')
                o, c = libops.record(direct)
                log.add('export', lib=task['shipped'], group=k, units=u,
                        text=core.digest(text)[:12], ok=c is not None)
                if c is None:
                    viols.append(core.violation(
                        'C18', 'round-trip', 'unreadable',
                        'exported-text-unreadable|direct|%s|%s'
                        % ('dimensional' if dim else 'nd', tag),
                        {'library': task['shipped'], 'group': k, 'units': u,
                         'text': text, 'outcome': o}))
                    continue
                for f, a, b in diff_export(src, obs_record(c), u):
                    viols.append(core.violation(
                        'C18', 'round-trip', f,
                        'round-trip-changes-%s|%s|%s'
                        % (f, 'dimensional' if dim else 'nd', tag),
                        {'library': task['shipped'], 'group': k, 'units': u,
                         'text': text, 'written': a, 'read_back': b}))
                    break
    by = {}
    kept = []
    for v in viols:
        by[v['signature']] = by.get(v['signature'], 0) + 1
        if by[v['signature']] == 1:
            v['spec'] = {'property': 'C18', 'shipped': task['shipped'],
                         'group': v['detail'].get('group'),
                         'units': v['detail'].get('units')}
            v['run'] = task['id']
            kept.append(v)
    return {'id': task['id'], 'digest': log.digest(), 'violations': kept,
            'violation_counts': by,
            'stats': {'ops': n, 'loads': 1, 'merges': 0}, 'probes': probes,
            'fired': {}, 'shape': task['id'], 'nontrivial': True,
            'faulted': False, 'strata': [], 'shipped_exports': n,
            'sample': {'shipped': task['shipped'], 'groups': len(names),
                       'exports': n}}


# ------------------------------------------- C12: split reference temperature
TREF_FIXED = [
    # (T1 of the file with the heat capacities, T2 of the file with the
    #  reference values, spelling of T2)
    (298.15, 298.0, 'K'), (298.15, 298.0, 'kK'), (298.0, 298.15, 'K'),
    (298.15, 298.16, 'K'), (300.0, 299.85, 'K'), (298.15, 273.15, 'K'),
    (298.15, 400.0, 'K'), (500.0, 500.25, 'K'),
]


def gen_tref_split(seed, fixed=None):
    """One group whose heat capacities (and range) are in one file under
    one reference temperature and whose reference enthalpy / entropy are in
    another file under another one; the same data in one file is the
    reference presentation."""
    rng = random.Random(seed)
    if fixed is not None:
        T1, T2, tunit = fixed
    else:
        T1 = rng.choice([298.15, 298.0, 300.0, 273.15, 500.0, 350.0])
        d = rng.choice([0.15, -0.15, 0.01, -0.01, 0.25, -0.25, 1.85, -1.85,
                        0.001, 25.0, -25.0, 100.0, 0.05, -0.3])
        T2 = round(T1 + d, 6)
        tunit = rng.choice(['K', 'K', 'kK', 'mK'])
    lo = min(T1, T2) - rng.choice([0.0, 10.0, 73.0])
    hi = max(T1, T2) + rng.choice([200.0, 500.0, 1000.0])
    # Heat capacities as measured ones look: a slowly varying curve on
    # evenly spread temperatures.  (A spline through unrelated values at
    # crowded temperatures oscillates, and pgradd's entropy -- a numerical
    # quadrature -- is then itself only good to 1e-5: seen while building
    # this stratum, see DESIGN 8.4.)
    n = rng.randint(3, 7)
    ts = [round(lo + (hi - lo) * i / (n - 1.0), 1) for i in range(n)]
    ts[0], ts[-1] = lo, hi
    a, b, c = rng.uniform(2.0, 12.0), rng.uniform(0.0, 14.0), \
        rng.uniform(-3.0, 1.0)
    cp = [[t, sg.sig(a + b * (t / 1000.0) + c * (t / 1000.0) ** 2, 8)]
          for t in ts]
    which = rng.choice(['HS', 'HS', 'H', 'S'])
    H = sg.sig(rng.uniform(-90.0, 90.0), 10) if 'H' in which else None
    S = sg.sig(rng.uniform(-5.0, 60.0), 10) if 'S' in which else None
    if rng.random() < 0.15:
        if H is not None:
            H = 0.0
        elif S is not None:
            S = 0.0
    return {'T1': T1, 'T2': T2, 'tunit': tunit, 'cp': cp,
            'range': [lo, hi], 'H': H, 'S': S,
            'form': rng.choice(['nd', 'kJ', 'kcal', 'J']),
            'cp_in': rng.choice(['parent', 'parent', 'include']),
            'extra_in_part': rng.random() < 0.3}


def _tref_files(sc):
    fac = {'K': 1.0, 'kK': 1000.0, 'mK': 0.001}[sc['tunit']]
    t2 = '%s %s' % (sg.fmt(float(repr(sc['T2'] / fac))), sc['tunit'])
    if abs(float(repr(sc['T2'] / fac)) * fac - sc['T2']) > 0:
        # the spelling must be the same temperature in both presentations;
        # it is (the same text is used), the number need not survive exactly
        pass
    units = ('units:\n    molar enthalpy: kJ/mol\n'
             '    molar entropy: J/(mol*K)\n'
             '    molar heat capacity: J/(mol*K)\n    temperature: K\n\n')
    G = "    'C(C)':\n        'thermochem':\n"
    cp_rows = ''.join('                - [%s, %s]\n' % (sg.fmt(t), sg.fmt(v))
                      for t, v in sc['cp'])
    rng_line = '            range: [%s, %s]\n' % (sg.fmt(sc['range'][0]),
                                                 sg.fmt(sc['range'][1]))

    def refs(form):
        out = ''
        # T2 as pgradd reads the spelling (the reference values are
        # non-dimensionalised by the reference temperature of their entry)
        T2 = float(repr(sc['T2'] / fac)) * fac
        for d, v in (('H', sc['H']), ('S', sc['S'])):
            if v is None:
                continue
            if form == 'nd':
                out += '            ND_%s_ref: %s\n' % (d, sg.fmt(v))
            else:
                f = {'kJ': 1000.0, 'kcal': 4184.0, 'J': 1.0}[form]
                si = v * sg.R_GAS * (T2 if d == 'H' else 1.0)
                u = {'kJ': 'kJ/mol', 'kcal': 'kcal/mol', 'J': 'J/mol'}[form]
                if d == 'S':
                    u += '/K'
                out += '            %s_ref: %s %s\n' % (
                    d, sg.fmt(float(repr(si / f))), u)
        return out
    cp_block = '            ND_Cp_data:\n' + cp_rows + rng_line
    t1_line = '            T_ref: %s\n' % sg.fmt(sc['T1'])
    t2_line = '            T_ref: %s\n' % t2
    if sc['cp_in'] == 'parent':
        parent_g = G + t1_line + cp_block
        part_g = G + t2_line + refs(sc['form'])
    else:
        parent_g = G + t2_line + refs(sc['form'])
        part_g = G + t1_line + cp_block
    if sc.get('extra_in_part'):
        part_g += ("    'C(H)':\n        'thermochem':\n"
                   "            T_ref: 298.15\n            ND_S_ref: 1.5\n")
    split = ROOT + '/split'
    one = ROOT + '/one'
    files = {
        split + '/scheme.yaml': sg.SCHEME_TEXT,
        one + '/scheme.yaml': sg.SCHEME_TEXT,
        split + '/library.yaml': units + 'include:\n    - part.yaml\n\n'
        'groups:\n' + parent_g,
        split + '/part.yaml': units + 'groups:\n' + part_g,
        one + '/library.yaml': units + 'groups:\n' + G + t2_line +
        refs(sc['form'] if sc['form'] != 'nd' else 'nd') + cp_block,
        ROOT + '/one-nd/scheme.yaml': sg.SCHEME_TEXT,
        ROOT + '/one-nd/library.yaml': units + 'groups:\n' + G + t2_line +
        refs('nd') + cp_block,
    }
    return files


def run_tref_split(sc, rid):
    """The reference values of a group and its heat capacities come from
    files with different reference temperatures: what is loaded must
    evaluate like the same data given in one file (there the reference
    temperature is the one the reference values were given at)."""
    from pgradd.GroupAdd.Library import GroupLibrary
    fs = SimFS()
    fs.files = _tref_files(sc)
    log = core.EventLog()
    viols = []
    probes = {}
    near = abs(sc['T1'] - sc['T2']) < 1.0
    probes['tref_split_' + ('near' if near else 'far')] = 1
    undo = fs.install()
    try:
        corrs = {}
        for name in ('split', 'one', 'one-nd'):
            out, lib = libops.record(GroupLibrary.Load,
                                     '%s/%s/library.yaml' % (ROOT, name))
            log.add('load', which=name, exc=out.get('exc'))
            if lib is None:
                viols.append(core.violation(
                    'C12', 'presentation-independence', 'load-failed',
                    'split-reference-temperature|load-failed|%s|%s'
                    % (name, out.get('exc')),
                    {'scenario': sc, 'outcome': out}))
                continue
            corrs[name] = libops.pset(lib['C(C)'], 'thermochem')
            if corrs[name] is None:
                raise RuntimeError('split-reference-temperature: the '
                                   'property-set type is not registered '
                                   '(harness)')
        if len(corrs) == 3:
            lo, hi = sc['range']
            temps = [sc['T1'], sc['T2'], lo + (hi - lo) * 1e-9,
                     hi - (hi - lo) * 1e-9, 0.5 * (lo + hi)]
            temps += [t for t, _ in sc['cp'][1:3]]
            ps = dict((k, props(c, temps)) for k, c in corrs.items())
            scale = 1.0 + max([abs(v) for _, v in sc['cp']] +
                              [abs(x) for x in (sc['H'], sc['S'])
                               if x is not None])
            for name in ('split', 'one'):
                bad = nonplain_props(ps[name])
                if bad:
                    viols.append(core.violation(
                        'C12', 'plain-numbers', 'non-plain',
                        'split-reference-temperature|not-a-plain-number|%s'
                        % bad[0].split('@')[0],
                        {'scenario': sc, 'at': bad[0]}))
            for a, b in (('split', 'one'), ('one', 'one-nd')):
                # The entropy is a numerical quadrature in pgradd
                # (scipy quad, default tolerances 1.49e-8): across two
                # reference temperatures it is the sum of two such
                # integrals instead of one, and only equal to that
                # tolerance; enthalpy and heat capacity are analytic.
                d = []
                for meth, rel, ab in (('get_SoR', 1e-6, 1e-7),
                                      ('get_HoRT', 1e-9, 1e-10),
                                      ('get_CpoR', 1e-9, 1e-10)):
                    sel = lambda p: dict((k, v) for k, v in p.items()
                                         if k.startswith(meth + '@'))
                    d += diff_props(sel(ps[a]), sel(ps[b]), rel=rel,
                                    abs_=ab * scale)
                for key, x, y in sorted(d)[:1]:
                    viols.append(core.violation(
                        'C12', 'presentation-independence', 'props-differ',
                        'split-reference-temperature|%s-vs-%s|evaluates-'
                        'differently|%s|%s' % (a, b, key.split('@')[0],
                                               'near' if near else 'far'),
                        {'scenario': sc, 'at': key, a: x, b: y}))
            log.add('props', p=core.digest(ps['split'])[:12])
    finally:
        undo()
    by = {}
    kept = []
    for v in viols:
        by[v['signature']] = by.get(v['signature'], 0) + 1
        if by[v['signature']] == 1:
            v['spec'] = {'property': 'C12', 'tref_split': sc}
            v['run'] = rid
            kept.append(v)
    return {'id': rid, 'digest': log.digest(), 'violations': kept,
            'violation_counts': by,
            'stats': {'ops': 4, 'loads': 3, 'merges': 1}, 'probes': probes,
            'fired': {}, 'shape': core.digest(
                [sc['T1'], sc['T2'], sc['tunit'], sc['form'], sc['cp_in'],
                 len(sc['cp']), sc['H'] is None, sc['S'] is None])[:16],
            'nontrivial': True, 'faulted': False,
            'strata': ['split_reference_temperature'],
            'sample': {'tref_split': sc}}



def summarise(results, prop):
    stats = {'ops': 0, 'loads': 0, 'merges': 0}
    probes = {}
    fired = {}
    shapes = set()
    strata = {}
    ff = fi = 0
    shipped = 0
    for r in results:
        for k in stats:
            stats[k] += r['stats'][k]
        for k, v in r['probes'].items():
            probes[k] = probes.get(k, 0) + v
        for k, v in r['fired'].items():
            fired[k] = fired.get(k, 0) + v
        if r['nontrivial']:
            shapes.add(r['shape'])
        for s in r['strata']:
            strata[s] = strata.get(s, 0) + 1
        if r['faulted']:
            fi += 1
        else:
            ff += 1
        shipped += r.get('shipped_exports', 0)
    what = {'C13': 'an include tree of 1-6 files over which the data of 2-8 '
                   'groups are split (data may repeat across files), then '
                   '3-25 operations: loads, include permutations and '
                   're-nestings, library and correlation merges with and '
                   'without overwrite, repeats, injected conflicts / double '
                   'spellings / file faults',
            'C12': 'one abstract world rendered in 2-3 unit presentations '
                   '(default-unit blocks, explicit units with prefixes, '
                   'non-dimensional keys, mixtures; per-file temperature '
                   'units), each loaded and compared; optionally a value '
                   'whose unit is removed',
            'C18': 'a world loaded once, then 2-8 exports of its groups in '
                   'random unit choices, each read back directly and '
                   'embedded in a library file; plus shipped-library '
                   'exports'}[prop]
    return {
        'evaluations': len(results),
        'distinct_nontrivial': len(shapes),
        'rule': 'one evaluation = one seeded world + operation list (%s); '
                'distinct = distinct (tree shape, presentation vector, fault '
                'kinds, merge/overwrite pattern, strata) tuple; non-trivial '
                '= at least one load happened and (C13) the data span several '
                'files or a merge ran' % what,
        'samples': [r['sample'] for r in results[:3]],
        'operations': stats['ops'], 'loads': stats['loads'],
        'merges': stats['merges'],
        'faults_fired': fired, 'probes': probes, 'strata': strata,
        'runs_fault_free': ff, 'runs_fault_injecting': fi,
        'shipped_group_exports': shipped,
        'exhaustive_finite_part': 'every group of every shipped library x 4 '
        'unit sets x 2 temperature units' if prop == 'C18' else None,
        'simulated_time': {'unit': 'operations', 'total': stats['ops']},
    }


def _forked(fn, timeout=900):
    from sim.zygote import _run_chain_forked
    kind, val = _run_chain_forked(lambda st, c: fn(), None, None, timeout)
    return val if kind == 'ok' else False


def shrink(spec, signature):
    if 'shipped' in spec or 'tref_split' in spec:
        return spec
    hist = spec_history(spec)
    spec = dict((k, v) for k, v in spec.items() if k != 'history_task')
    if hist:
        def test_hist(h):
            def run():
                try:
                    viols, _, _ = execute_spec(dict(spec, history=list(h)))
                except Exception:
                    return False
                return any(v['signature'] == signature for v in viols)
            return _forked(run)
        if test_hist([]):
            hist = []
        elif test_hist(hist):
            hist = ddmin(hist, test_hist, max_tests=80)
        if hist:
            # history-dependent: what ran before is minimised, the failing
            # history itself is kept as it is
            return dict(spec, history=hist, history_needed=len(hist))
    spec.pop('history', None)

    def holds(s):
        # every trial in a fork of this (unused) process: trials must not
        # see what earlier trials left behind
        def run():
            try:
                viols, _, _ = execute_spec(s)
            except Exception:
                return False
            return any(v['signature'] == signature for v in viols)
        return _forked(run)

    def test_ops(ops):
        s = dict(spec)
        s['ops'] = ops
        return holds(s)
    ops = ddmin(spec['ops'], test_ops, max_tests=200)
    new = copy.deepcopy(spec)
    new['ops'] = ops
    # shrink the world: drop entries, then data points
    def test_world(aw):
        s = dict(new)
        s['aw'] = aw
        return holds(s)
    aw = new['aw']
    items = [(f, i) for f in sorted(aw['files'])
             for i in range(len(aw['files'][f]['entries']))]

    def without(keep):
        a = copy.deepcopy(aw)
        keep = set(keep)
        for f in a['files']:
            a['files'][f]['entries'] = [
                e for i, e in enumerate(a['files'][f]['entries'])
                if (f, i) in keep]
        return a
    if len(items) > 1:
        kept = ddmin(items, lambda ks: test_world(without(ks)), max_tests=80)
        cand = without(kept)
        if test_world(cand):
            aw = cand
    # drop Cp points
    for f in sorted(aw['files']):
        for i, e in enumerate(aw['files'][f]['entries']):
            for t in sorted(e['Cp']):
                a = copy.deepcopy(aw)
                a['files'][f]['entries'][i]['Cp'].pop(t)
                if test_world(a):
                    aw = a
    new['aw'] = aw
    new['shrunk_from_ops'] = len(spec['ops'])
    return new
