"""C09 -- text-stream simulation (DESIGN 3.1).

System under simulation: the real pgradd.RINGParser.Read.  Stubs: the clock
(SimClock, LINE steps inside pgradd) and a recording ParseState so that the
final stream position of an accepted text can be observed.
Faults: EOF at any offset, token deletion / duplication / substitution /
insertion, byte flips, NUL / non-ASCII insertion, undefined labels, trailing
tokens / fragments.
"""
import glob
import hashlib
import io
import os
import warnings
from contextlib import redirect_stdout

from sim import core
from sim.simclock import SimClock, StepBudgetExceeded
from sim.shrink import shrink_text
from . import ringgen

PROP = 'C09'
MAX_LEN = 800
LEVEL = 'exploration'
ASSUMPTIONS = [
    'the step budget B(n) = 2e6 + 2e4*n LINE steps (>= 50x the worst shipped '
    'fragment) separates slow from hung; C extensions are not clocked',
    'the hand-written generator mirrors the documented RING grammar; '
    'fault-mutated texts <= 800 characters, size strata (chains of up to 400 '
    'atoms, numbers of up to 9000 digits) up to ~14 000 characters',
    'exception types allowed to escape: RINGSyntaxError (position inside the '
    'text), RINGReaderError, NotImplementedError',
]
COMPONENTS = {
    'real': ['pgradd.RINGParser (parser, grammar, both readers)', 'RDKit atom/bond/query construction'],
    'stubs': ['clock (LINE-step counter via sys.monitoring)', 'Parser.ParseState replaced by a recording subclass (observes the final stream position)', 'the character stream itself is the fault surface (EOF / token / byte faults)']}

_state = {}


def budget(n):
    return 2000000 + 20000 * n


def shipped_corpus():
    """All distinct RING texts of the shipped schemes (fragments and
    pretreatment rules), sorted (hash-seed independent)."""
    import yaml
    texts = set()
    data = os.path.join(core.pgradd_dir(), 'data')
    for path in sorted(glob.glob(os.path.join(data, '*', 'scheme.yaml'))):
        with open(path) as f:
            d = yaml.safe_load(f)
        for key in ('patterns', 'other_descriptors'):
            for ent in d.get(key) or []:
                if isinstance(ent.get('connectivity'), str):
                    texts.add(ent['connectivity'])
        for rule in d.get('pretreatment_rules') or []:
            for t in (rule if isinstance(rule, list) else [rule]):
                if isinstance(t, str):
                    texts.add(t)
    return sorted(texts)


def worker_init(*args):
    from rdkit import RDLogger
    RDLogger.DisableLog('rdApp.*')
    from pgradd.RINGParser import Parser, Reader
    from pgradd import Error

    Orig = Parser.ParseState

    class RecordingParseState(Orig):
        last = None

        def __init__(self, *a, **kw):
            RecordingParseState.last = self
            Orig.__init__(self, *a, **kw)

    if not getattr(Parser.ParseState, '_verif_recording', False):
        RecordingParseState._verif_recording = True
        Parser.ParseState = RecordingParseState
    _state['PS'] = Parser.ParseState
    _state['Read'] = Reader.Read
    _state['Error'] = Error
    _state['corpus'] = shipped_corpus()
    # warm-up: lazy imports inside Read must not be charged to the first text
    for t in ('fragment a{C labeled c1}',
              'rule a{reactant r1{C labeled c1 H labeled h1 single bond to '
              'c1} break bond (c1, h1)}'):
        try:
            with redirect_stdout(io.StringIO()), warnings.catch_warnings():
                warnings.simplefilter('ignore')
                Reader.Read(t)
        except Exception:
            pass
    _state['clock'] = SimClock()


def _read_clocked(text, limit):
    Error = _state['Error']
    clock = _state['clock']
    PS = _state['PS']
    PS.last = None
    out = {}
    exc_obj = None
    clock.start(limit)
    try:
        try:
            with redirect_stdout(io.StringIO()), warnings.catch_warnings():
                warnings.simplefilter('ignore')
                q = _state['Read'](text)
            out['kind'] = 'query'
            out['qtype'] = type(q).__name__
        finally:
            out['steps'] = clock.stop()
    except StepBudgetExceeded:
        out['kind'] = 'hang'
        out['where'] = list(clock.tripped)
    except Error.RINGSyntaxError as exc:
        out['kind'] = 'syntax'
        exc_obj = exc
    except Error.RINGReaderError as exc:
        out['kind'] = 'reader'
    except NotImplementedError:
        out['kind'] = 'notimpl'
    except Exception as exc:          # noqa -- classified below
        out['kind'] = 'internal'
        out['exc'] = type(exc).__name__
        out['site'] = list(core.exc_site(exc))
    return out, exc_obj


def read_text(text, fast=False):
    """Run Read(text) under the step clock; return (outcome, violations)."""
    n = len(text)
    full = budget(n)
    out, exc = _read_clocked(text, full // 20)
    escalated = False
    if out['kind'] == 'hang':
        # A first-pass overrun is re-run at the full budget, unless this
        # worker has already confirmed a hang with the same loop home at the
        # full budget twice (cost cap; the verdict for that signature is
        # already a violation, and hang events carry no step count so the
        # event log does not depend on which worker saw which text first).
        sig = tuple(out['where'])
        confirmed = _state.setdefault('confirmed_hangs', {})
        if confirmed.get(sig, 0) < 2 and not fast:
            escalated = True
            out, exc = _read_clocked(text, full)
            if out['kind'] == 'hang':
                sig = tuple(out['where'])
                confirmed[sig] = confirmed.get(sig, 0) + 1
    out['escalated'] = escalated
    viols = []
    if out['kind'] == 'hang':
        viols.append(core.violation(
            PROP, 'hang', 'hang', '%s:%s' % tuple(out['where']),
            {'steps': out['steps'],
             'budget': full if escalated else full // 20,
             'confirmed_at_full_budget_here': escalated}))
    elif out['kind'] == 'internal':
        sig = '%s@%s:%s' % (out['exc'], out['site'][0], out['site'][1])
        if out['exc'] == 'RecursionError':
            sig = 'RecursionError'     # where the stack ran out is arbitrary
        viols.append(core.violation(
            PROP, 'internal-exception', out['exc'], sig, out))
    elif out['kind'] == 'syntax':
        lines = text.split('\n')
        out['lineno'] = exc.lineno
        out['colno'] = exc.colno
        bad = None
        if not isinstance(exc.lineno, int) or not (1 <= exc.lineno <= len(lines)):
            bad = 'line-outside-text'
        elif not isinstance(exc.colno, int) or \
                not (1 <= exc.colno <= len(lines[exc.lineno - 1]) + 1):
            bad = 'column-outside-line'
        else:
            try:
                s = str(exc)
                if not isinstance(s, str):
                    bad = 'message-not-str'
            except Exception as e2:
                bad = 'message-raises-' + type(e2).__name__
        out['expected'] = sorted(str(t) for t in exc.toks if t)[:6]
        if bad:
            viols.append(core.violation(
                PROP, 'bad-position', bad, bad,
                {'lineno': exc.lineno, 'colno': exc.colno,
                 'nlines': len(lines)}))
    elif out['kind'] == 'query':
        ps = _state['PS'].last
        sidx = getattr(ps, 'sidx', None)
        out['sidx'] = sidx
        if not isinstance(sidx, int):
            # no parse state was made during this reading (or it keeps no
            # position): how far the text was consumed cannot be seen, so
            # nothing is claimed about it
            out['sidx'] = None
            out['tail_oracle'] = 'unavailable'
        elif sidx != n:
            head = text.lstrip()[:8].split(' ')[0].split('{')[0]
            top = 'rule' if out['qtype'] == 'ReactionQuery' else 'fragment'
            viols.append(core.violation(
                PROP, 'unconsumed-tail', 'accepted-with-tail', top,
                {'consumed': sidx, 'length': n, 'tail': text[sidx:sidx + 40]
                 if isinstance(sidx, int) else None}))
    return out, viols


def _event(out):
    # the outcome, not its cost: the number of simulated steps is kept as a
    # statistic only (a correct memo inside the reader may make the second
    # reading of a text cheaper than the first)
    return core.digest([out.get('kind'), out.get('lineno'),
                        out.get('colno'), out.get('exc'), out.get('where')])


# --------------------------------------------------------------- generation

def gen_item(run_seed):
    """One seeded run: a base text and 0-3 faults."""
    rng = core.rng_for('C09-item', run_seed)
    corpus = _state['corpus']
    r = rng.random()
    if r < 0.40 and corpus:
        i = rng.randrange(len(corpus))
        base = corpus[i]
        bdesc = 'shipped#%d' % i
    elif r < 0.70:
        base = ringgen.gen_fragment(rng)
        bdesc = 'gen-fragment'
    elif r < 0.80:
        base = ringgen.gen_rule(rng)
        bdesc = 'gen-rule'
    elif r < 0.91:
        # well-formed text with one semantic fault (label misuse etc.);
        # mostly left without further text-stream faults
        if rng.random() < 0.7:
            base, sem = ringgen.gen_semantic_rule(rng)
        else:
            base, sem = ringgen.gen_semantic_fragment(rng)
        bdesc = 'semantic:' + sem
        if rng.random() < 0.8:
            return {'id': 'm%d' % run_seed, 'text': base, 'base': bdesc,
                    'faults': [{'kind': 'semantic:' + sem}]}
    elif r < 0.925:
        # size strata: very long chains (deep nesting for a recursive
        # descent) and very long numbers -- legal input all the same
        if rng.random() < 0.4:
            base, what = ringgen.gen_deep(rng)
            bdesc = 'deep-%s-%d' % (what, len(base))
        elif rng.random() < 0.5:
            n = rng.choice([60, 150, 250, 400])
            atoms = ['C labeled c1'] + ['C labeled c%d single bond to c%d'
                                        % (i, i - 1) for i in range(2, n + 1)]
            base = 'fragment long{ %s }' % '\n'.join(atoms)
            bdesc = 'long-chain-%d' % n
        else:
            # just above the digit limit and far above it; the number may
            # end its line (what follows is on the next, short, line)
            nd = rng.choice([19, 20, 25, 50, 1000, 4300, 4400, 9000])
            after = rng.choice([')', ')', '\n)', '\n\n)', ' \n )', '\n\t)'])
            if rng.random() < 0.75:
                steps = ' '.join('modify number of radical (c1, %s%s'
                                 % ('7' * nd, after)
                                 for _ in range(rng.choice([1, 2, 3])))
                base = 'rule big{ reactant r1{ C? labeled c1 } %s%s' % (
                    steps, rng.choice([' }', '\n}', '}']))
            else:
                base = 'rule big{ reactant r1{ C? labeled c1 } constraints{ ' \
                    'r1.formula is C%s%s}' % ('7' * nd, rng.choice(
                        [' ', '\n', '\n\n ', '\nH2 '])) + \
                    ' increase number of radical (c1) }'
            bdesc = 'huge-number-%d' % nd
        return {'id': 'm%d' % run_seed, 'text': base, 'base': bdesc,
                'faults': [{'kind': 'size:' + bdesc.rsplit('-', 1)[0]}]}
    else:
        base = ringgen.gen_noise(rng)
        bdesc = 'noise'
    # swarm: fault-free / one kind / several kinds
    c = rng.random()
    nf = 0 if c < 0.15 else (1 if c < 0.70 else rng.randrange(2, 4))
    text = base
    faults = []
    for _ in range(nf):
        kind = rng.choice(ringgen.FAULT_KINDS)
        text, rec = ringgen.apply_fault(rng, text, kind)
        faults.append(rec)
    text = text[:MAX_LEN]
    return {'id': 'm%d' % run_seed, 'text': text, 'base': bdesc,
            'faults': faults}


def deep_items():
    """Every recursive production of the grammar x every depth stratum, with
    accepted terms throughout (independent of VERIF_SEED): reading time must
    stay within the step budget at every depth."""
    items = []
    for k in range(ringgen.DEEP_KINDS):
        for n in ringgen.DEEP_SIZES:
            for rep in range(2):
                rng = core.rng_for('C09-deep', k * 100000 + n * 10 + rep)
                text, what = ringgen.gen_deep(rng, k=k, n=n, pure=True)
                items.append({'id': 'deep%d.%d.%d' % (k, n, rep), 'text': text,
                              'base': 'deep-%s-%d' % (what, n),
                              'faults': [{'kind': 'size:deep-' + what}]})
    # numbers above the digit limit in every number slot, ending their line
    # or not (independent of VERIF_SEED as well)
    n = 0
    for nd in (19, 25, 4400):
        for after in (')', '\n)', '\n\n)', ' \n )', '\n\t)'):
            for tail in (' }', '\n}'):
                text = 'rule big{ reactant r1{ C? labeled c1 } modify ' \
                    'number of radical (c1, %s%s%s' % ('7' * nd, after, tail)
                items.append({'id': 'deep%d.num.%d' % (ringgen.DEEP_KINDS - 1,
                                                       n),
                              'text': text, 'base': 'huge-number-%d' % nd,
                              'faults': [{'kind': 'size:huge-number'}]})
                n += 1
        for after in (' ', '\n', '\n\n ', '\nH2 '):
            text = 'rule big{ reactant r1{ C? labeled c1 } constraints{ ' \
                'r1.formula is C%s%s} increase number of radical (c1) }' \
                % ('7' * nd, after)
            items.append({'id': 'deep%d.num.%d' % (ringgen.DEEP_KINDS - 1, n),
                          'text': text, 'base': 'huge-number-%d' % nd,
                          'faults': [{'kind': 'size:huge-number'}]})
            n += 1
    return items


def trunc_items(corpus_idx, stride, phase):
    text = _state['corpus'][corpus_idx]
    items = []
    offsets = set(range(phase, len(text) + 1, stride))
    if stride > 1:
        # plus every token boundary (right after a token, and right after
        # the white space that follows it): that is where the reader's
        # expectation changes, e.g. "...in ring of size " expects a digit
        import re
        for m in re.finditer(r'[A-Za-z0-9_]+|[^\sA-Za-z0-9_]', text):
            offsets.add(m.end())
            m2 = re.match(r'\s+', text[m.end():])
            if m2:
                offsets.add(m.end() + m2.end())
    for k in sorted(offsets):
        items.append({'id': 't%d.%d' % (corpus_idx, k), 'text': text[:k],
                      'base': 'shipped#%d' % corpus_idx,
                      'faults': [{'kind': 'eof', 'at': k}]})
    return items


def plan(tier, verif_seed):
    corpus = shipped_corpus()
    tasks = []
    if tier == 'quick':
        stride, nmut, chunk = 5, 20000, 500
    else:
        stride, nmut, chunk = 1, 300000, 1500
    nmut = int(os.environ.get('VERIF_C09_MUTANTS', nmut))
    for i in range(len(corpus)):
        tasks.append({'id': 'trunc-%d' % i, 'kind': 'trunc', 'idx': i,
                      'stride': stride,
                      'phase': core.H(verif_seed, 'C09-phase', i) % stride})
    for k in range(ringgen.DEEP_KINDS):
        tasks.append({'id': 'deep-%d' % k, 'kind': 'deep', 'k': k})
    seeds = [core.H(verif_seed, 'C09', j) for j in range(nmut)]
    for j in range(0, nmut, chunk):
        tasks.append({'id': 'mut-%d' % j, 'kind': 'mut',
                      'seeds': seeds[j:j + chunk]})
    return tasks


def _h8(s):
    return hashlib.sha256(s.encode('utf-8', 'surrogatepass')).hexdigest()[:16]


ISOLATE_TASKS = True       # a task is one process lifetime (sim/runner.py)


def task_items(task):
    if task['kind'] == 'trunc':
        return trunc_items(task['idx'], task['stride'], task['phase'])
    if task['kind'] == 'deep':
        return [it for it in deep_items()
                if it['id'].startswith('deep%d.' % task['k'])]
    if task['kind'] == 'mut':
        return [gen_item(s) for s in task['seeds']]
    return task['items']


def run_task(task):
    items = task_items(task)
    log = core.EventLog()
    res = {'id': task['id'], 'n': 0, 'outcomes': {}, 'fired': {},
           'triples': {}, 'texts': {}, 'violations': [], 'steps': 0,
           'probes': {}, 'nontrivial': 0, 'samples': [], 'kept_texts': {}}
    seen = set()
    for pos, it in enumerate(items):
        out, viols = read_text(it['text'])
        th = _h8(it['text'])
        ev = _event(out)[:16]
        log.add('read', id=it['id'], text=th, ev=ev)
        res['n'] += 1
        res['steps'] += out.get('steps', 0)
        res['outcomes'][out['kind']] = res['outcomes'].get(out['kind'], 0) + 1
        fk = '+'.join(sorted(set(f['kind'] for f in it['faults']
                                 if not f.get('noop')))) or 'none'
        for f in it['faults']:
            if not f.get('noop'):
                res['fired'][f['kind']] = res['fired'].get(f['kind'], 0) + 1
        where = ','.join(out.get('expected', [])[:2]) \
            if out['kind'] == 'syntax' else out.get('qtype', '')
        tri = '%s|%s|%s' % (out['kind'], where, fk)
        res['triples'][tri] = res['triples'].get(tri, 0) + 1
        if th in res['texts'] and res['texts'][th] != ev:
            v = core.violation(
                PROP, 'same-text-same-outcome', 'history-dependent-read',
                'same-text-read-twice-ends-differently',
                {'first': res['texts'][th], 'now': ev, 'outcome': out})
            v['spec'] = {'property': PROP, 'text': it['text'],
                         'twice': True, 'base': it['base'],
                         'faults': it['faults'],
                         'budget': budget(len(it['text'])),
                         'history_task': {'task': task, 'upto': pos}}
            v['run'] = it['id']
            res['violations'].append(v)
        res['texts'][th] = ev
        if out['kind'] != 'syntax' and len(it['text']) <= 400:
            res['kept_texts'][th] = it['text']
        first_tok_end = len(it['text']) - len(it['text'].lstrip()) + 8
        nontrivial = out['kind'] in ('query', 'reader', 'notimpl',
                                      'internal', 'hang') or \
            (out['kind'] == 'syntax' and
             (out.get('lineno', 1) > 1 or out.get('colno', 1) > first_tok_end))
        if nontrivial and th not in seen:
            seen.add(th)
            res['nontrivial'] += 1
        pr = res['probes']
        if out['kind'] == 'query' and it['faults']:
            pr['accepted_mutant'] = pr.get('accepted_mutant', 0) + 1
        if out['kind'] == 'syntax':
            if out.get('lineno') == len(it['text'].split('\n')):
                pr['error_at_last_line'] = pr.get('error_at_last_line', 0) + 1
            if out.get('colno') == 1:
                pr['error_at_column_1'] = pr.get('error_at_column_1', 0) + 1
        if out.get('escalated'):
            pr['budget_escalation_used'] = pr.get('budget_escalation_used', 0) + 1
        if out.get('tail_oracle'):
            pr['tail_oracle_unavailable'] = \
                pr.get('tail_oracle_unavailable', 0) + 1
        if len(res['samples']) < 2 and it['faults'] and nontrivial:
            res['samples'].append({'text': it['text'][:200],
                                   'base': it['base'],
                                   'faults': it['faults'],
                                   'outcome': out})
        for v in viols:
            v['spec'] = {'property': PROP, 'text': it['text'],
                         'base': it['base'], 'faults': it['faults'],
                         'budget': budget(len(it['text'])),
                         # what this process had read before (the replay
                         # reads it again first; the shrinker drops what is
                         # not needed, usually all of it)
                         'history_task': {'task': task, 'upto': pos}}
            v['run'] = it['id']
            res['violations'].append(v)
    res['digest'] = log.digest()
    res['nontrivial_texts'] = sorted(seen)
    # cap violation payload: keep 2 examples per signature, count all
    by = {}
    kept = []
    for v in res['violations']:
        by[v['signature']] = by.get(v['signature'], 0) + 1
        if by[v['signature']] <= 2:
            kept.append(v)
    res['violation_counts'] = by
    res['violations'] = kept
    return [res]


# ------------------------------------------------------------------- replay

def spec_history(spec):
    """The texts read before spec['text'] in its process lifetime."""
    if spec.get('history') is not None:
        return list(spec['history'])
    ht = spec.get('history_task')
    if ht:
        return [it['text'] for it in task_items(ht['task'])[:ht['upto']]]
    return []


def execute_spec(spec, fast=False):
    """Replay an explicit spec (in a process that has read nothing yet);
    returns (violations, event digest)."""
    ev1 = None
    for t in spec_history(spec):
        o, _ = read_text(t, fast=True)
        if ev1 is None and t == spec['text']:
            ev1 = _event(o)        # the first reading of the same text
    out, viols = read_text(spec['text'], fast=fast)
    if spec.get('twice'):
        if ev1 is None:
            ev1 = _event(out)
            out, viols2 = read_text(spec['text'])
            viols = viols + [v for v in viols2
                             if v['signature'] not in
                             [w['signature'] for w in viols]]
        if _event(out) != ev1:
            viols.append(core.violation(
                PROP, 'same-text-same-outcome', 'history-dependent-read',
                'same-text-read-twice-ends-differently',
                {'first': ev1, 'now': _event(out), 'outcome': out}))
    return viols, _event(out), out


def cross_cell(cells, prop):
    """History check over the batch: the same text read in two tasks (two
    points of some worker's life) must end the same way."""
    viols = []
    for hs in sorted(cells):
        seen = {}
        texts = {}
        for r in cells[hs]:
            texts.update(r.get('kept_texts') or {})
        for r in cells[hs]:
            for th, ev in r['texts'].items():
                if th in seen and seen[th] != ev and th in texts \
                        and not viols:
                    v = core.violation(
                        PROP, 'same-text-same-outcome',
                        'history-dependent-read',
                        'same-text-read-twice-ends-differently',
                        {'first': seen[th], 'other': ev,
                         'text': texts[th][:200]})
                    v['spec'] = {'property': PROP, 'text': texts[th],
                                 'twice': True, 'base': '?', 'faults': [],
                                 'budget': budget(len(texts[th]))}
                    v['run'] = 'cross-task-%s' % th
                    v['hash_seed'] = hs
                    viols.append(v)
                seen.setdefault(th, ev)
    return viols


def _forked(fn, timeout=600):
    """fn() in a fork of this process (which has read nothing): the test
    runs of the shrinker must not see each other's history."""
    from sim.zygote import _run_chain_forked
    kind, val = _run_chain_forked(lambda st, c: fn(), None, None, timeout)
    return val if kind == 'ok' else False


def shrink(spec, signature):
    hist = spec_history(spec)
    spec = dict((k, v) for k, v in spec.items() if k != 'history_task')
    if hist:
        from sim.shrink import ddmin

        def test_hist(h):
            def run():
                viols, _, _ = execute_spec(dict(spec, history=list(h)),
                                           fast=True)
                return any(v['signature'] == signature for v in viols)
            return _forked(run)
        if test_hist([]):
            hist = []
        elif test_hist(hist):
            hist = ddmin(hist, test_hist, max_tests=150)
        spec['history'] = hist
        if hist:
            # history-dependent: the text itself is kept as it is
            spec['history_needed'] = len(hist)
            return spec
    spec.pop('history', None)
    if spec.get('twice'):
        return spec

    def test(t):
        # first-pass budget only while shrinking (20x cheaper for hangs);
        # the result is confirmed at the full budget by the caller
        _, viols = read_text(t, fast=True)
        return any(v['signature'] == signature for v in viols)
    small = shrink_text(spec['text'], test)
    new = dict(spec)
    new['text'] = small
    new['shrunk_from_len'] = len(spec['text'])
    new['budget'] = budget(len(small))
    return new


# ----------------------------------------------------------------- evidence

def summarise(all_results):
    agg = {'n': 0, 'outcomes': {}, 'fired': {}, 'triples': {}, 'probes': {},
           'steps': 0, 'nontrivial_texts': set(), 'texts': {},
           'conflicts': [], 'samples': []}
    for r in all_results:
        agg['n'] += r['n']
        agg['steps'] += r['steps']
        for k in ('outcomes', 'fired', 'triples', 'probes'):
            for kk, vv in r[k].items():
                agg[k][kk] = agg[k].get(kk, 0) + vv
        for th, ev in r['texts'].items():
            if th in agg['texts'] and agg['texts'][th] != ev:
                agg['conflicts'].append(th)
            agg['texts'][th] = ev
        agg['nontrivial_texts'].update(r['nontrivial_texts'])
        if len(agg['samples']) < 6 and str(r['id']).startswith('mut'):
            agg['samples'].extend(r['samples'][:2])
    if not agg['samples']:
        for r in all_results:
            agg['samples'].extend(r['samples'][:1])
            if len(agg['samples']) >= 4:
                break
    agg['n_conflicts'] = len(agg['conflicts'])
    return {
        'evaluations': agg['n'],
        'distinct_nontrivial': len(agg['nontrivial_texts']),
        'rule': 'texts = shipped RING fragments/rules truncated at offsets '
                '(EOF fault) + seeded base texts (shipped / grammar-generated '
                'fragment / rule / noise) with 0-3 text-stream faults; a case '
                'is counted when its text is distinct (sha256) AND the reader '
                'got past the first keyword (accepted, reader error, '
                'not-implemented, or a syntax error located beyond the first '
                'token)',
        'samples': agg['samples'],
        'distinct_texts': len(agg['texts']),
        'distinct_outcome_where_fault_triples': len(agg['triples']),
        'outcomes': agg['outcomes'],
        'faults_fired': agg['fired'],
        'probes': agg['probes'],
        'same_text_read_in_two_tasks_with_different_outcome':
        agg['n_conflicts'],
        'simulated_time': {'unit': 'python LINE steps inside pgradd',
                           'total': agg['steps']},
    }
