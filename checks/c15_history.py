"""C15 -- history simulation (DESIGN 3.4).

Real pgradd end to end on the nine shipped libraries and two synthetic
fixtures.  Stubs: the scheduler (1-3 logical clients, interleaved by the
PRNG), process restart / fresh process (fork of a pristine zygote), and a
pass-through file seam that injects transient open/read faults into loads.

Oracle 1: every observation equals the value of the minimal chain computed
first in a fresh process.  Oracle 2: after every step, every live library's
digest equals the fresh digest of its lineage; descriptor mappings held by
clients and process-wide state are unchanged.  Oracle 3 (coordinator): the
same key computed in fresh processes under different hash seeds agrees.
"""
import builtins
import errno
import io
import os

from sim import core
from sim.shrink import ddmin
from sim.zygote import RefClient
from . import libops

PROP = 'C15'
LEVEL = 'exploration'
COMPONENTS = {
    'real': ['pgradd end to end (loaders, schemes, decomposition, estimates, correlations, merging, writer)', 'RDKit', 'numpy', 'scipy', 'PyYAML', 'pmutt', 'the real shipped data files and two fixture libraries on the real file system'],
    'stubs': ['scheduler (seeded interleaving of 1-3 logical clients)', 'pass-through open() seam on Library/Scheme with a fault plan', 'process restart / fresh process = fork of a pristine zygote (one per history, one per reference chain)', 'environment variable pgradd_DATA_DIR set by the history']}
ASSUMPTIONS = [
    'fork() of a process that only imported pgradd is equivalent to a new '
    'interpreter (re-validated on a sample of keys in genuinely new '
    'interpreters on every run)',
    'operations are atomic scheduler steps: no pre-emption inside an '
    'operation (the library has no threads and no property speaks about '
    'concurrent callers)',
    'an estimate evaluated after a later merge into its library is compared '
    'with the same sequence (estimate, merge, evaluate) done first in a '
    'fresh process',
]

SHIPPED = ['BensonGA', 'GRWAqueous2018', 'GRWSurface2018',
           'GuSolventGA2017Aq', 'GuSolventGA2017Vac', 'PPY', 'PtSurface2023',
           'SalciccioliGA2012', 'XieGA2022']
FIX = ['FixA', 'FixB', 'FixC']
# cheap libraries are drawn more often (loads dominate the cost)
LIB_WEIGHTS = {'BensonGA': 2, 'PPY': 1, 'GRWAqueous2018': 2,
               'GRWSurface2018': 2, 'GuSolventGA2017Aq': 2,
               'GuSolventGA2017Vac': 2, 'PtSurface2023': 2,
               'SalciccioliGA2012': 2, 'XieGA2022': 4, 'FixA': 6, 'FixB': 5,
               'FixC': 2}
GAS = ['C', 'CC', 'CCC', 'CCCC', 'CCCCCC', 'CC(C)C', 'CC(C)(C)C', 'C1CCCCC1',
       'C1CC1', 'C=C', 'CC=C', 'C=CC=C', 'C#C', 'CC#C', 'CO', 'CCO', 'CC=O',
       'CC(=O)C', 'CC(=O)O', 'COC', 'C1CO1', 'c1ccccc1', 'Cc1ccccc1',
       '[CH3]', 'C[CH2]', 'CC(C)O', 'OCCO', 'C=O', 'O', 'CN', 'CC#N',
       'C1=CC=CC=C1', 'CCCO', 'OCC(O)CO']
SURF = ['C([Pt])C[Pt]', '[Pt]C([Pt])C([Pt])([Pt])C=O', 'C(=O)([Pt])O',
        '[Pt]C', '[Pt]CC', 'CC([Pt])O', '[Pt]O', '[Pt]OC', 'C(=O)[Pt]',
        '[Pt]C([Pt])[Pt]', '[Ru]C([Ru])C([Ru])([Ru])C', '[Ru]C', '[Ru]CC',
        '[Ru]C([Ru])[Ru]', '[Pt][H]', 'OC([Pt])C([Pt])O', '[Pt]C([Pt])C',
        'CC([Pt])([Pt])[Pt]', 'OCC[Pt]', 'C(O)([Pt])[Pt]']
BAD = ['not_a_smiles', 'C(', '[Xx]', '']
TEMPS = [298.15, 300.0, 500.0, 750.0, 1000.0, 1500.0, 100.0, 2500.0, 298.0]
UNITS_E = ['kJ/mol', 'kcal/mol', 'J/mol', 'eV']
UNITS_S = ['J/mol/K', 'cal/mol/K', 'kJ/mol/K', 'eV/K']
PATTERNS = ['fragment a{C labeled c1 C labeled c2 single bond to c1}',
            'fragment a{C labeled c1 {connected to 2 H}}',
            'fragment a{C labeled c1', 'fragment a{Zz labeled c1}',
            'rule a{reactant r1{C labeled c1 H labeled h1 single bond to c1}'
            ' break bond (c1,h1) increase number of radical (c1) increase '
            'number of radical (h1)}']
FORMAT_UNITS = [{}, {'molar enthalpy': 'kcal/mol', 'molar entropy':
                     'cal/(mol*K)', 'molar heat capacity': 'cal/(mol*K)'},
                {'molar enthalpy': 'kJ/mol', 'temperature': 'K'}]

_st = {}


# ------------------------------------------------------------ file seam

class _FaultyFile(object):
    def __init__(self, f, fault):
        self._f = f
        self._fault = fault

    def read(self, *a):
        if not self._fault.get('fired'):
            self._fault['fired'] = True
            raise OSError(errno.EIO, 'Input/output error (injected)')
        return self._f.read(*a)

    def __getattr__(self, name):
        return getattr(self._f, name)

    def __enter__(self):
        return self

    def __exit__(self, *a):
        self._f.close()

    def __iter__(self):
        return iter(self._f)


def _sim_open(path, *a, **kw):
    """Pass-through open: real files, but the run's fault plan is consulted
    first."""
    faults = _st.get('faults') or []
    log = _st.get('fs_log')
    base = os.path.basename(str(path))
    for ft in faults:
        if ft.get('fired') or ft['file'] != base:
            continue
        if ft.get('skip', 0) > 0:
            ft['skip'] -= 1
            continue
        if ft['kind'] == 'EIO_read':
            if log is not None:
                log.append(['open', base, 'fault-armed:EIO_read'])
            return _FaultyFile(_REAL_OPEN(path, *a, **kw), ft)
        ft['fired'] = True
        if log is not None:
            log.append(['open', base, 'fault:' + ft['kind']])
        code = {'ENOENT': errno.ENOENT, 'EACCES': errno.EACCES,
                'EIO': errno.EIO}[ft['kind']]
        raise OSError(code, os.strerror(code) + ' (injected)', str(path))
    if log is not None:
        log.append(['open', base])
    return _REAL_OPEN(path, *a, **kw)


_REAL_OPEN = builtins.open


def _global_open(path, *a, **kw):
    # data files only; everything else the process opens is not the
    # simulated disk's business
    if isinstance(path, (str, os.PathLike)) and \
            str(path).endswith(('.yaml', '.yml')):
        return _sim_open(path, *a, **kw)
    return _REAL_OPEN(path, *a, **kw)


def install_seam():
    """The module globals `open` of Library and Scheme (what the package
    uses today) and, for data files, the process-wide open / io.open (what a
    refactoring might use instead: io.open, pathlib)."""
    from pgradd.GroupAdd import Library, Scheme
    Library.open = _sim_open
    Scheme.open = _sim_open
    builtins.open = _global_open
    io.open = _global_open


# ------------------------------------------------- reference (fresh) side

def _ref_setup(lineage):
    libops.quiet()
    from contextlib import redirect_stdout
    with redirect_stdout(io.StringIO()):
        return libops.build_lineage(lineage)


def _decompose_spec(lib, molspec):
    """molspec: a molecule, or [molecule, [groups the caller asked the
    returned mapping for]] (asking a defaultdict for a key it does not have
    leaves that key behind with a count of zero)."""
    if isinstance(molspec, (list, tuple)):
        mol, touched = molspec
    else:
        mol, touched = molspec, []
    out, d = libops.op_decompose(lib, mol)
    if d is not None:
        for g in touched:
            d[g]
    return out, d


def _ref_chain(lib, chain):
    kind = chain[0]
    if kind == 'digest':
        return {'ok': True, 'value': libops.lib_digest(lib)}
    if kind == 'decompose':
        out, _ = libops.op_decompose(lib, chain[1])
        return out
    if kind == 'estimate':
        out, d = _decompose_spec(lib, chain[1])
        if d is None:
            return {'precondition-failed': out}
        out, _ = libops.op_estimate(lib, d)
        return out
    if kind == 'evaluate':
        out, d = _decompose_spec(lib, chain[1])
        if d is None:
            return {'precondition-failed': out}
        out, est = libops.op_estimate(lib, d)
        if est is None:
            return {'precondition-failed': out}
        return libops.op_evaluate(est, chain[2])
    if kind == 'evaluate_plain':
        # estimate made from a plain dict copy of the descriptors
        out, d = _decompose_spec(lib, chain[1])
        if d is None:
            return {'precondition-failed': out}
        out, est = libops.op_estimate(lib, dict(d))
        if est is None:
            return {'precondition-failed': out}
        return libops.op_evaluate(est, chain[2])
    if kind == 'mapping_api':
        return mapping_api(lib)
    if kind == 'evaluate2':
        # an estimate made first, then later merges into its library, then
        # the evaluation -- all of it first in a fresh process
        out, d = _decompose_spec(lib, chain[1])
        if d is None:
            return {'precondition-failed': out}
        out, est = libops.op_estimate(lib, d)
        if est is None:
            return {'precondition-failed': out}
        for other, overwrite in chain[3]:
            libops.record(lib.Update, libops.build_lineage(other), overwrite)
        return libops.op_evaluate(est, chain[2])
    if kind == 'group_eval':
        corr = libops.pset(lib[chain[1]], 'thermochem')
        if corr is None:
            return {'precondition-failed': 'no such group'}
        return libops.op_evaluate(corr, chain[2])
    if kind == 'format':
        return libops.op_format(lib, chain[1], chain[2])
    if kind == 'groups':
        return {'ok': True, 'value': sorted(str(g) for g in lib)}
    raise ValueError(kind)


def mapping_api(lib):
    """The library's public Mapping face: len, iteration, membership."""
    names = sorted(str(g) for g in lib)
    return {'ok': True, 'value': [len(lib), core.digest(names)[:16],
                                  all(n in lib for n in names[:20]),
                                  'no such group' in lib]}


def _ref_setup_any(arg):
    if arg is None:
        libops.quiet()
        return None
    return _ref_setup(arg)


def _ref_chain_any(state, chain):
    if chain[0] == 'read_pattern':
        from pgradd.RINGParser import Read
        out, q = libops.record(Read, chain[1])
        if q is not None:
            out['value'] = type(q).__name__
        return out
    if chain[0] == 'process':
        return {'ok': True, 'value': _proc_digest()}
    return _ref_chain(state, chain)


def _proc_digest():
    doc = libops.process_state_canon()
    doc.pop('data_dir_cached')
    return core.digest(doc)


def worker_init(prop='C15', tier='quick'):
    # Nothing of pgradd has run in this process yet: fork the pristine
    # reference server first.  The worker itself stays pristine for good:
    # every history runs in its own forked child (a fresh process), which
    # talks to the reference server over the inherited connection and hands
    # new reference values back for the worker's memo.
    _st['ref'] = RefClient(_ref_setup_any, _ref_chain_any)
    _st['memo'] = {}


def reference(lineage, chain):
    """Fresh-process value of `chain` on `lineage` (memoised)."""
    lk = libops.lineage_key(lineage) if lineage is not None else 'none'
    key = lk + '|' + core.dumps(chain)
    memo = _st['memo']
    if key not in memo:
        status, val = _st['ref'].request(lk, lineage, chain)
        if status != 'ok':
            raise RuntimeError('reference computation failed (%s): %s'
                               % (status, val))
        memo[key] = val
        _st.setdefault('memo_new', {})[key] = val
    _st.setdefault('refs_used', {})[key] = core.digest(memo[key])[:16]
    _st.setdefault('lineages', {})[lk] = lineage
    if core.H('refsample', key) % 40 == 0:
        _st.setdefault('ref_samples', {})[key] = [lineage, chain,
                                                  core.digest(memo[key])[:16]]
    return memo[key]


# -------------------------------------------------------------- execution

def _cls(out):
    if 'exc' in out:
        return out['exc']
    v = out.get('value')
    if isinstance(v, dict) and 'type' in v:
        return 'type:' + v['type']
    return 'value'


class History(object):
    def __init__(self, spec):
        self.spec = spec
        self.slots = {}
        self.descs = {}
        self.ests = {}
        self.log = core.EventLog(spec.get('run_seed'))
        self.viols = []
        self.probes = {}
        self.grams = []
        self.stats = {'ops': 0, 'skipped': 0, 'compared': 0, 'faults': {}}
        self.proc0 = None
        self.global_digests = set()

    def probe(self, name):
        self.probes[name] = self.probes.get(name, 0) + 1

    def viol(self, oracle, cls, sig, detail, idx):
        detail = dict(detail)
        detail['op_index'] = idx
        self.viols.append(core.violation(PROP, oracle, cls, sig, detail))

    def compare(self, kind, obs, ref, idx, detail, tag=''):
        self.stats['compared'] += 1
        if isinstance(ref, dict) and 'precondition-failed' in ref:
            # the fresh chain could not even reach this operation although
            # the history did: that is a difference
            self.viol('fresh-equivalence', 'precondition',
                      '%s%s|obs=%s|ref=unreachable' % (kind, tag, _cls(obs)),
                      dict(detail, observed=obs, reference=ref), idx)
            return False
        if libops.same_outcome(obs, ref):
            return True
        what = 'obs=%s|ref=%s' % (_cls(obs), _cls(ref))
        if _cls(obs) == _cls(ref) and obs.get('warn') != ref.get('warn'):
            what += '|warnings-differ'
        sig = '%s%s|%s' % (kind, tag, what)
        if 'plain-mapping,' in tag:
            # one defect, whatever it surfaces as (a value of another
            # molecule, or the error of parsing that molecule's name)
            sig = '%s%s' % (kind, tag)
        self.viol('fresh-equivalence', what, sig,
                  dict(detail, observed=_trim(obs), reference=_trim(ref)), idx)
        return False

    # -- invariants after every step
    def invariants(self, idx, opkind):
        for sid in sorted(self.slots):
            s = self.slots[sid]
            dg = libops.lib_digest(s['lib'])
            self.global_digests.add(dg)
            want = s.get('baseline')
            if want is None:
                want = reference(s['lineage'], ['digest'])['value']
            if dg != want:
                self.viol('state-altered', 'library-contents',
                          'library-contents|by=%s' % opkind,
                          {'slot': sid, 'lineage': s['lineage'],
                           'digest': dg, 'fresh': want}, idx)
                # one alteration is reported once: from here on this object
                # is compared with its own altered state (kept out of the
                # table of fresh reference values)
                s['baseline'] = dg
        for name in sorted(self.descs):
            d = self.descs[name]
            now = libops.descriptors_canon(d['d'])
            if now != d['canon']:
                self.viol('state-altered', 'descriptors',
                          'descriptors|by=%s' % opkind,
                          {'desc': name, 'before': d['canon'], 'after': now},
                          idx)
                d['canon'] = now
        pd = _proc_digest()
        if self.proc0 is None:
            self.proc0 = reference(None, ['process'])['value']
        if pd != self.proc0:
            self.viol('state-altered', 'process-state',
                      'process-state|by=%s' % opkind,
                      {'now': libops.process_state_canon()}, idx)
            self.proc0 = pd

    def run(self):
        ops = self.spec['ops']
        for idx, op in enumerate(ops):
            kind = op['op']
            fn = getattr(self, 'do_' + kind)
            _st['fs_log'] = []
            ev = fn(op, idx)
            if ev is None:
                self.stats['skipped'] += 1
                self.log.add('skip', i=idx, op=kind)
                continue
            self.stats['ops'] += 1
            self.log.add('op', i=idx, op=kind, ev=ev, fs=_st['fs_log'])
            self.invariants(idx, kind)
        _st['faults'] = None
        # at the end only (the probe would fill whatever memo the units
        # table keeps): what the table answers, against definitions
        rs = self.spec.get('run_seed')
        bad = libops.units_behaviour_problems(
            (rs if isinstance(rs, int) else len(str(rs))) % 2)
        if bad:
            self.viol('state-altered', 'units-table',
                      'units-table-answers-against-definitions',
                      {'problems': bad[:6]}, len(ops))
        return self

    # -- operations
    def do_register(self, op, idx):
        """The caller registers a second property-set type (the documented
        extension point) between other operations.  Libraries loaded from
        now on read data of that type; nothing else changes."""
        out, new = libops.record(libops.register_demo_property_set)
        self.registered = True
        # the registries legitimately change: new baseline
        self.proc0 = _proc_digest()
        self.probe('property_set_registered_mid_history')
        return ['register', out.get('exc')]

    registered = False

    def do_setenv(self, op, idx):
        """The caller changes the data-directory override between
        operations (its environment is part of the history)."""
        v = op['value']
        if v is None:
            os.environ.pop('pgradd_DATA_DIR', None)
        elif v == '<bundled>':
            os.environ['pgradd_DATA_DIR'] = os.path.join(core.pgradd_dir(),
                                                         'data')
        else:
            os.environ['pgradd_DATA_DIR'] = v
        self.env_valid = v is None or v == '<bundled>'
        self.probe('override_changed')
        return ['setenv', v]

    env_valid = True
    resolved = False

    def do_load(self, op, idx):
        sid = op['slot']
        lineage = {'base': [op['lib'], op.get('how', 'name')], 'merges': []}
        if self.registered and op['lib'] == 'FixC':
            lineage['registered'] = True
        faults = [dict(f) for f in op.get('faults') or []]
        _st['faults'] = faults
        out, lib = libops.record(libops.load_library, op['lib'],
                                 op.get('how', 'name'))
        _st['faults'] = None
        fired = [f for f in faults if f.get('fired')]
        for f in fired:
            k = f['kind']
            self.stats['faults'][k] = self.stats['faults'].get(k, 0) + 1
        if fired:
            self.probe('load_under_fault')
            if lib is not None:
                self.viol('fault-handling', 'load-succeeded-despite-fault',
                          'load|returned-library-despite-%s' % fired[0]['kind'],
                          {'lib': op['lib'], 'faults': fired}, idx)
            elif out.get('exc') not in ('OSError', 'FileNotFoundError',
                                        'PermissionError', 'IOError'):
                # the failure must surface as the injected error
                self.viol('fault-handling', 'fault-masked',
                          'load|%s-surfaced-as-%s' % (fired[0]['kind'],
                                                      out.get('exc')),
                          {'lib': op['lib'], 'outcome': out}, idx)
            self.after_failure = idx
            return ['load-failed', op['lib'], out.get('exc')]
        by_name = op.get('how', 'name') == 'name' and \
            not op['lib'].startswith('Fix')
        if by_name and not self.env_valid and not self.resolved:
            # the override names no directory and nothing was resolved yet
            # in this process: the load cannot succeed
            self.probe('load_by_name_under_invalid_override')
            if lib is None:
                self.after_failure = idx
                return ['load-failed-override', op['lib'], out.get('exc')]
        if by_name and not self.env_valid and self.resolved and lib is None:
            # an implementation may or may not re-read the override
            self.after_failure = idx
            return ['load-failed-override', op['lib'], out.get('exc')]
        if lib is None:
            self.viol('fresh-equivalence', 'load-failed',
                      'load|obs=%s|ref=ok' % out.get('exc'),
                      {'lib': op['lib'], 'outcome': out}, idx)
            return ['load-error', op['lib'], out.get('exc')]
        if sid in self.slots:
            self.probe('reload_into_used_slot')
        if any(s['lineage']['base'][0] == op['lib']
               for s in self.slots.values()):
            self.probe('load_library_already_loaded')
        if by_name:
            self.resolved = True
        self.slots[sid] = {'lib': lib, 'lineage': lineage, 'last_mol': None,
                           'ndecomp': 0}
        return ['load', op['lib'], op.get('how', 'name'), out.get('warn')]

    def do_construct(self, op, idx):
        """A library object made with the public constructor from a loaded
        one (same scheme, copied contents, default arguments otherwise)."""
        src = self.slots.get(op['from'])
        if src is None or src['lineage'].get('merges') or \
                src['lineage'].get('constructed') or src.get('baseline'):
            return None
        out, lib = libops.record(libops.construct_copy, src['lib'],
                                 bool(op.get('empty')))
        if lib is None:
            self.viol('fresh-equivalence', 'construct-failed',
                      'construct|obs=%s|ref=ok' % out.get('exc'),
                      {'outcome': out}, idx)
            return ['construct-failed', out.get('exc')]
        lineage = {'base': list(src['lineage']['base']), 'merges': [],
                   'constructed': 'empty' if op.get('empty') else True}
        if src['lineage'].get('registered'):
            lineage['registered'] = True
        self.slots[op['slot']] = {'lib': lib, 'lineage': lineage,
                                  'last_mol': None, 'ndecomp': 0}
        self.probe('library_made_with_constructor')
        if op.get('empty'):
            self.probe('empty_collecting_library')
        return ['construct', lineage['base'][0]]

    def do_decompose(self, op, idx):
        s = self.slots.get(op['slot'])
        if s is None:
            return None
        out, d = libops.op_decompose(s['lib'], op['mol'])
        base = {'base': [s['lineage']['base'][0], 'name'], 'merges': []}
        ref = reference(base, ['decompose', op['mol']])
        self.compare('decompose', out, ref, idx,
                     {'lib': s['lineage']['base'][0], 'mol': op['mol']})
        if getattr(self, 'after_failure', None) == idx - 1:
            self.probe('op_right_after_failed_op')
        if d is not None:
            self.descs[op['out']] = {'d': d, 'canon': libops.descriptors_canon(d),
                                     'lib': s['lineage']['base'][0],
                                     'mol': op['mol'], 'slot': op['slot']}
        else:
            self.after_failure = idx
            self.probe('failed_decomposition')
        s['last_mol'] = op['mol']
        s['ndecomp'] += 1
        return ['decompose', op['mol'], core.digest(out)[:12]]

    def do_estimate(self, op, idx):
        s = self.slots.get(op['slot'])
        d = self.descs.get(op['from'])
        if s is None or d is None or d['lib'] != s['lineage']['base'][0]:
            return None
        if s['ndecomp'] == 0:
            self.probe('estimate_on_slot_that_never_decomposed')
        elif s['last_mol'] != d['mol']:
            self.probe('other_decomposition_between_decompose_and_estimate')
        if d['slot'] != op['slot']:
            self.probe('estimate_from_decomposition_of_other_slot')
        plain = bool(op.get('plain'))
        if op.get('touch') is not None:
            # the caller looks a group up in the mapping it got from
            # GetDescriptors (a defaultdict: a group the structure does not
            # have is left behind with a count of zero)
            names = sorted(str(g) for g in s['lib'])
            if names:
                g = names[op['touch'] % len(names)]
                if g not in d['d']:
                    self.probe('descriptor_with_zero_count')
                d['d'][g]
                d.setdefault('touched', []).append(g)
                # the caller's own doing, not an effect of a library call
                d['canon'] = libops.descriptors_canon(d['d'])
        molspec = [d['mol'], list(d['touched'])] if d.get('touched') \
            else d['mol']
        out, est = libops.op_estimate(s['lib'], dict(d['d']) if plain
                                      else d['d'])
        lin = _lin_copy(s['lineage'])
        ref = reference(lin, ['estimate', molspec])
        self.compare('estimate', out, ref, idx,
                     {'lineage': lin, 'mol': d['mol'],
                      'slot_last_decomposed': s['last_mol']})
        if est is not None:
            self.ests[op['out']] = {'e': est, 'lineage': lin, 'mol': d['mol'],
                                    'molspec': molspec,
                                    'slot': op['slot'], 'made_at': idx,
                                    'librec': s, 'plain': plain,
                                    # what the library had decomposed last
                                    # when the estimate was made
                                    'lib_last_mol': s['last_mol'],
                                    'lib_ndecomp': s['ndecomp']}
            if plain:
                self.probe('estimate_from_plain_copy_of_descriptors')
        else:
            self.after_failure = idx
        return ['estimate', d['mol'], core.digest(out)[:12]]

    def do_evaluate(self, op, idx):
        e = self.ests.get(op['est'])
        if e is None:
            return None
        v = op['v']
        out = libops.op_evaluate(e['e'], v)
        if 'exc' in out:
            self.after_failure = idx
        if v.get('S_el'):
            self.probe('evaluation_with_S_elements')
            if idx - e['made_at'] > 3:
                self.probe('S_elements_long_after_creation')
        # the record of the library object the estimate was made from (it
        # outlives the slot: the slot may hold another library by now, the
        # merges that went into the object before still count)
        rec = e['librec']
        later = rec['lineage']['merges'][len(e['lineage']['merges']):]
        if later:
            # merges went into the estimate's library after it was made:
            # the reference does exactly the same, first, in a fresh process
            self.probe('estimate_evaluated_after_later_merge')
            ref = reference(e['lineage'], ['evaluate2', e['molspec'], v,
                                           later])
        elif e.get('plain'):
            ref = reference(e['lineage'], ['evaluate_plain', e['molspec'], v])
        else:
            ref = reference(e['lineage'], ['evaluate', e['molspec'], v])
        tag = '[S_el]' if v.get('S_el') else ''
        if e.get('plain') and v.get('S_el'):
            # stratum of the known finding: a plain mapping cannot carry its
            # molecule, the estimate falls back to the library's last one
            if e['lib_ndecomp'] == 0:
                tag += '[plain-mapping,library-never-decomposed]'
            elif e['lib_last_mol'] != e['mol']:
                tag += '[plain-mapping,library-decomposed-other-since]'
            else:
                tag += '[plain-mapping]'
        self.compare('evaluate', out, ref, idx,
                     {'lineage': e['lineage'], 'mol': e['mol'], 'variant': v},
                     tag)
        return ['evaluate', e['mol'], v['m'], core.digest(out)[:12]]

    def do_group_eval(self, op, idx):
        s = self.slots.get(op['slot'])
        if s is None:
            return None
        names = sorted(str(g) for g in s['lib'])
        if not names:
            return None
        g = names[op['gi'] % len(names)]
        corr = libops.pset(s['lib'][g], 'thermochem')
        if corr is None:
            return None
        out = libops.op_evaluate(corr, op['v'])
        lin = _lin_copy(s['lineage'])
        ref = reference(lin, ['group_eval', g, op['v']])
        self.compare('group_eval', out, ref, idx,
                     {'lineage': lin, 'group': g, 'variant': op['v']})
        return ['group_eval', g, op['v']['m'], core.digest(out)[:12]]

    def do_format(self, op, idx):
        s = self.slots.get(op['slot'])
        if s is None:
            return None
        names = sorted(str(g) for g in s['lib'])
        if not names:
            return None
        g = names[op['gi'] % len(names)]
        if libops.pset(s['lib'][g], 'thermochem') is None:
            return None
        out = libops.op_format(s['lib'], g, op['units'])
        lin = _lin_copy(s['lineage'])
        ref = reference(lin, ['format', g, op['units']])
        self.compare('format', out, ref, idx, {'lineage': lin, 'group': g})
        return ['format', g, core.digest(out)[:12]]

    def do_read_pattern(self, op, idx):
        from pgradd.RINGParser import Read
        out, q = libops.record(Read, op['text'])
        if q is not None:
            out['value'] = type(q).__name__
        ref = reference(None, ['read_pattern', op['text']])
        self.compare('read_pattern', out, ref, idx, {'text': op['text']})
        return ['read_pattern', core.digest(out)[:12]]

    def do_merge(self, op, idx):
        a = self.slots.get(op['slot'])
        b = self.slots.get(op['other'])
        if a is None or b is None or op['slot'] == op['other']:
            return None
        if len(a['lineage']['merges']) >= 2:
            return None
        if _has_flag(a['lineage'], 'registered') != \
                _has_flag(b['lineage'], 'registered'):
            # A group loaded before the second property-set type was
            # registered cannot take a set of that type (the loader's
            # attribute-backed mapping has no item assignment: TypeError
            # midway), and how much of the group was merged before that
            # depends on the iteration order of a set of names, i.e. on the
            # hash seed.  Outside what the property speaks about: not merged.
            return None
        uq_before = libops.uq_canon(a['lib'])
        out, _ = libops.record(a['lib'].Update, b['lib'], op['overwrite'])
        if 'exc' in out and out['exc'] == 'ReadOnlyDataError' and \
                libops.uq_canon(a['lib']) != uq_before:
            # group data may be partly merged when a library merge is
            # rejected (not stated otherwise); the uncertainty block is
            # taken over as a whole and only by a merge that went through
            self.viol('failed-operation-effects', 'uq-adopted',
                      'rejected-merge-changed-the-uncertainty-block',
                      {'target': a['lineage']['base'][0],
                       'source': b['lineage']['base'][0]}, idx)
        newlin = {'base': a['lineage']['base'],
                  'merges': a['lineage']['merges']
                  + [[_lin_copy(b['lineage']), op['overwrite']]]}
        if a['lineage'].get('constructed'):
            newlin['constructed'] = a['lineage']['constructed']
        if a['lineage'].get('registered'):
            newlin['registered'] = True
        a['lineage'] = newlin
        a.pop('baseline', None)
        if 'exc' in out:
            self.after_failure = idx
            self.probe('rejected_merge')
        self.probe('merge')
        self.after_merge = idx
        return ['merge', a['lineage']['base'][0], b['lineage']['base'][0],
                op['overwrite'], out.get('exc')]

    def do_mapping_api(self, op, idx):
        s = self.slots.get(op['slot'])
        if s is None or s.get('baseline') is not None:
            return None
        out = mapping_api(s['lib'])
        lin = _lin_copy(s['lineage'])
        ref = reference(lin, ['mapping_api'])
        self.compare('mapping_api', out, ref, idx, {'lineage': lin})
        return ['mapping_api', core.digest(out)[:12]]

    def do_digest(self, op, idx):
        s = self.slots.get(op['slot'])
        if s is None:
            return None
        return ['digest', libops.lib_digest(s['lib'])[:12]]


def _has_flag(lin, flag):
    return bool(lin.get(flag)) or any(_has_flag(o, flag)
                                      for o, _ in lin.get('merges', []))


def _lin_copy(lin):
    out = {'base': list(lin['base']),
           'merges': [[_lin_copy(o), ov] for o, ov in lin.get('merges', [])]}
    if lin.get('constructed'):
        out['constructed'] = lin['constructed']
    if lin.get('registered'):
        out['registered'] = True
    return out


def _trim(out):
    out = dict(out)
    v = out.get('value')
    if isinstance(v, list) and len(v) > 12:
        out['value'] = v[:12] + ['...']
    if isinstance(v, str) and len(v) > 300:
        out['value'] = v[:300] + '...'
    return out


def _history_child(state, spec):
    """Runs in a forked child of the pristine worker: one fresh process
    per history."""
    libops.quiet()
    install_seam()
    _st['refs_used'] = {}
    _st['ref_samples'] = {}
    _st['lineages'] = {}
    _st['memo_new'] = {}
    h = History(spec).run()
    return {'viols': h.viols, 'digest': h.log.digest(), 'stats': h.stats,
            'probes': h.probes,
            'global_digests': sorted(d[:12] for d in h.global_digests),
            'refs': dict(_st['refs_used']),
            'ref_samples': dict(_st['ref_samples']),
            'lineages': dict(_st.get('lineages') or {}),
            'memo_new': dict(_st['memo_new'])}


def execute_spec(spec):
    from sim.zygote import _run_chain_forked
    status, val = _run_chain_forked(_history_child, None, spec, 900)
    if status != 'ok':
        raise RuntimeError('history child failed (%s): %s' % (status, val))
    _st['memo'].update(val.pop('memo_new'))
    return val['viols'], val['digest'], val


# ------------------------------------------------------------- generation

def _variant(rng, temps):
    m = rng.choice(['get_CpoR', 'get_HoRT', 'get_SoR', 'get_SoR', 'get_GoRT',
                    'get_GoRT', 'get_H', 'get_S', 'get_G', 'get_Cp'])
    v = {'m': m, 'T': rng.choice(temps)}
    if rng.random() < 0.12:
        # a hair beside a temperature that is (likely to be) evaluated as
        # well: next to a tabulated point, just inside or just outside an
        # end of the valid range
        v['T'] = v['T'] + rng.choice([1e-7, -1e-7, 4e-7, -4e-7, 1e-9])
    if m in ('get_SoR', 'get_GoRT', 'get_S', 'get_G'):
        v['S_el'] = rng.choice([None, False, True, True])
    if m in ('get_H', 'get_G'):
        v['unit'] = rng.choice(UNITS_E)
    if m in ('get_S', 'get_Cp'):
        v['unit'] = rng.choice(UNITS_S)
    return v


def respell(smiles, k):
    """Another atom order of the same molecule (deterministic in k)."""
    try:
        from rdkit import Chem
        m = Chem.MolFromSmiles(smiles)
        if m is None or m.GetNumAtoms() < 2:
            return None
        return Chem.MolToRandomSmilesVect(m, 1, randomSeed=k)[0]
    except Exception:
        return None


_INC = {}


def include_basenames(lib):
    """Basenames of the files a library includes (recursively), read from
    the YAML on disk without pgradd."""
    if lib in _INC:
        return _INC[lib]
    import yaml
    root = libops.lib_path(lib, 'path')
    seen = []

    def visit(path):
        try:
            with open(path) as f:
                d = yaml.safe_load(f) or {}
        except Exception:
            return
        for inc in d.get('include') or []:
            p = os.path.normpath(os.path.join(os.path.dirname(path), inc))
            if p not in seen:
                seen.append(p)
                visit(p)
    visit(root)
    _INC[lib] = sorted(set(os.path.basename(p) for p in seen))
    return _INC[lib]


def gen_spec(run_seed, tier='quick'):
    rng = core.rng_for('C15-run', run_seed)
    nclients = rng.choice([1, 1, 2, 2, 3])
    names = list(LIB_WEIGHTS)
    libs = []
    for _ in range(rng.choice([1, 2, 2, 3])):
        libs.append(rng.choices(names, [LIB_WEIGHTS[n] for n in names])[0])
    if rng.random() < 0.35 and 'FixA' not in libs:
        libs[0] = 'FixA'
        if len(libs) > 1:
            libs[1] = 'FixB'
    pool = GAS + SURF
    mols = rng.sample(pool, rng.randrange(3, 9))
    if rng.random() < 0.5:
        mols.append(rng.choice(BAD))
    if any(l.startswith('Fix') for l in libs):
        mols += rng.sample(['CCC', 'CCO', 'CCCO', 'CO', 'CC(C)C', 'COC'], 3)
    # the same compound written with another atom order (a history may
    # decompose both spellings with one library object)
    for m in list(mols):
        if rng.random() < 0.3:
            alt = respell(m, rng.randrange(1, 10000))
            if alt and alt != m:
                mols.append(alt)
    temps = rng.sample(TEMPS, rng.randrange(2, 6))
    length = rng.randrange(2, 41)
    fault_cfg = rng.random()
    fault_kinds = []
    if fault_cfg >= 0.5:
        fault_kinds = rng.sample(['ENOENT', 'EIO', 'EACCES', 'EIO_read'],
                                 1 if fault_cfg < 0.9 else 2)
    w = {'decompose': rng.uniform(1, 4), 'estimate': rng.uniform(1, 4),
         'evaluate': rng.uniform(1, 5), 'group_eval': rng.uniform(0, 1.5),
         'merge': rng.uniform(0.2, 1.6), 'load': rng.uniform(0.2, 1.0),
         'format': rng.uniform(0, 0.6), 'read_pattern': rng.uniform(0, 0.5),
         'mapping_api': rng.uniform(0, 0.8),
         'construct': rng.uniform(0, 0.7)}
    reg_ops = 'FixC' in libs or rng.random() < 0.1
    did_register = False
    env_ops = rng.random() < 0.3
    if env_ops and rng.random() < 0.4:
        # the override is wrong from the start and corrected later
        pass
    # static model of what exists
    slots = {}                 # sid -> lib name
    descs = []                 # (name, lib)
    ests = []
    clients = [{'slot': None} for _ in range(nclients)]
    ops = []
    nd = ne = 0
    evals = []
    gevals = []
    est_slot = {}
    if env_ops and rng.random() < 0.4:
        ops.append({'op': 'setenv', 'client': 0,
                    'value': '/nonexistent/pgradd-data'})
        ops.append({'op': 'load', 'client': 0, 'slot': 0,
                    'lib': rng.choice([l for l in libs] + ['XieGA2022']),
                    'how': 'name'})
        ops.append({'op': 'setenv', 'client': 0,
                    'value': rng.choice([None, '<bundled>'])})

    def gen_load(c, cid):
        nonlocal slots
        lib = rng.choice(libs)
        if slots and rng.random() < 0.5:
            sid = rng.choice(sorted(slots))          # shared / reload
        else:
            sid = len(slots)
        op = {'op': 'load', 'client': cid, 'slot': sid, 'lib': lib,
              'how': rng.choice(['name', 'name', 'path'])}
        failed = False
        if fault_kinds and rng.random() < 0.5:
            kind = rng.choice(fault_kinds)
            # any file of the library: root, scheme, or one of its includes
            f = rng.choice(['library.yaml', 'scheme.yaml']
                           + include_basenames(lib) * 2)
            op['faults'] = [{'kind': kind, 'file': f, 'skip': 0}]
            failed = True
            if rng.random() < 0.12:
                # polling: the same failing load again and again, then the
                # file is there
                for _ in range(rng.choice([3, 8, 20, 40])):
                    ops.append(dict(op, faults=[dict(op['faults'][0])]))
                ops.append(op)
                op = dict((k, v) for k, v in op.items() if k != 'faults')
                failed = False
        ops.append(op)
        if not failed:
            slots[sid] = lib
            c['slot'] = sid
        elif sid in slots:
            c['slot'] = sid

    while len(ops) < length:
        cid = rng.randrange(nclients)
        c = clients[cid]
        if c['slot'] is None or c['slot'] not in slots:
            if slots and rng.random() < 0.5:
                c['slot'] = rng.choice(sorted(slots))   # share a slot
                continue
            gen_load(c, cid)
            continue
        if reg_ops and not did_register and len(ops) > 1 and \
                rng.random() < 0.15:
            ops.append({'op': 'register', 'client': cid})
            did_register = True
            continue
        if env_ops and rng.random() < 0.06:
            ops.append({'op': 'setenv', 'client': cid,
                        'value': rng.choice([None, '<bundled>',
                                             '/nonexistent/pgradd-data'])})
            continue
        kinds = ['decompose', 'load', 'group_eval', 'format', 'read_pattern',
                 'mapping_api', 'construct']
        lib = slots[c['slot']]
        mine = [d for d in descs if d[1] == lib]
        if mine:
            kinds.append('estimate')
        if ests:
            kinds.append('evaluate')
        if len(slots) >= 2:
            kinds.append('merge')
        k = rng.choices(kinds, [w[x] for x in kinds])[0]
        sid = c['slot']
        if k == 'decompose':
            name = 'd%d' % nd
            nd += 1
            ops.append({'op': 'decompose', 'client': cid, 'slot': sid,
                        'mol': rng.choice(mols), 'out': name})
            descs.append((name, lib))
        elif k == 'estimate':
            # any earlier decomposition made with the same library; biased
            # towards an older one (something else happened in between)
            d = rng.choice(mine) if rng.random() < 0.6 else mine[-1]
            tgt = sid
            others = [s for s in slots if slots[s] == lib and s != sid]
            if others and rng.random() < 0.3:
                tgt = rng.choice(others)
            name = 'e%d' % ne
            ne += 1
            ops.append({'op': 'estimate', 'client': cid, 'slot': tgt,
                        'from': d[0], 'out': name,
                        'plain': rng.random() < 0.15})
            if rng.random() < 0.12:
                ops[-1]['touch'] = rng.randrange(0, 400)
            ests.append(name)
            est_slot[name] = tgt
        elif k == 'evaluate':
            if evals and rng.random() < 0.3:
                # the very same observation again, after whatever happened
                # in between
                e, v = rng.choice(evals)
                ops.append({'op': 'evaluate', 'client': cid, 'est': e,
                            'v': dict(v)})
            else:
                e = rng.choice(ests) if rng.random() < 0.5 else ests[-1]
                v = _variant(rng, temps)
                ops.append({'op': 'evaluate', 'client': cid, 'est': e,
                            'v': v})
                evals.append((e, v))
        elif k == 'group_eval':
            if gevals and rng.random() < 0.3:
                g_sid, gi, v = rng.choice(gevals)
                ops.append({'op': 'group_eval', 'client': cid, 'slot': g_sid,
                            'gi': gi, 'v': dict(v)})
            else:
                v = _variant(rng, temps)
                v.pop('S_el', None)
                gi = rng.randrange(0, 400)
                ops.append({'op': 'group_eval', 'client': cid, 'slot': sid,
                            'gi': gi, 'v': v})
                gevals.append((sid, gi, v))
        elif k == 'format':
            ops.append({'op': 'format', 'client': cid, 'slot': sid,
                        'gi': rng.randrange(0, 400),
                        'units': rng.choice(FORMAT_UNITS)})
        elif k == 'mapping_api':
            ops.append({'op': 'mapping_api', 'client': cid, 'slot': sid})
        elif k == 'construct':
            new_sid = len(slots)
            op = {'op': 'construct', 'client': cid, 'slot': new_sid,
                  'from': sid}
            ops.append(op)
            if rng.random() < 0.3:
                # a library with the scheme only, used to collect others
                op['empty'] = True
                slots[new_sid] = lib
                srcs = [sid] + [x for x in sorted(slots)
                                if x not in (sid, new_sid)]
                for other in srcs[:rng.randrange(1, 4)]:
                    ops.append({'op': 'merge', 'client': cid, 'slot': new_sid,
                                'other': other,
                                'overwrite': rng.random() < 0.65})
                if rng.random() < 0.5:
                    ops.append({'op': 'mapping_api', 'client': cid,
                                'slot': sid})
                continue
            slots[new_sid] = lib
            if rng.random() < 0.5:
                c['slot'] = new_sid
        elif k == 'read_pattern':
            ops.append({'op': 'read_pattern', 'client': cid,
                        'text': rng.choice(PATTERNS)})
        elif k == 'merge':
            other = rng.choice([s for s in sorted(slots) if s != sid])
            ops.append({'op': 'merge', 'client': cid, 'slot': sid,
                        'other': other, 'overwrite': rng.random() < 0.65})
            # right after a merge: repeat earlier observations, preferably
            # those made on the merged-into library
            mine_e = [(e, v) for (e, v) in evals if est_slot.get(e) == sid]
            mine_g = [g for g in gevals if g[0] == sid]
            for _ in range(rng.randrange(0, 4)):
                if mine_e and rng.random() < 0.6:
                    e, v = rng.choice(mine_e)
                    ops.append({'op': 'evaluate', 'client': cid, 'est': e,
                                'v': dict(v)})
                elif mine_g and rng.random() < 0.7:
                    g_sid, gi, v = rng.choice(mine_g)
                    ops.append({'op': 'group_eval', 'client': cid,
                                'slot': g_sid, 'gi': gi, 'v': dict(v)})
                elif evals and rng.random() < 0.6:
                    e, v = rng.choice(evals)
                    ops.append({'op': 'evaluate', 'client': cid, 'est': e,
                                'v': dict(v)})
                elif gevals:
                    g_sid, gi, v = rng.choice(gevals)
                    ops.append({'op': 'group_eval', 'client': cid,
                                'slot': g_sid, 'gi': gi, 'v': dict(v)})
        elif k == 'load':
            gen_load(c, cid)
    return {'property': PROP, 'run_seed': run_seed,
            'config': {'clients': nclients, 'libs': libs,
                       'fault_kinds': fault_kinds}, 'ops': ops}


def fixed_histories():
    """Systematic observe / merge / observe-again histories: for a few
    library pairs that share groups, every property variant is evaluated on
    an estimate and on a group before a merge with overwrite, evaluated
    again after it, and once more on a new estimate."""
    pairs = [('FixA', 'FixB', 'CCO'), ('GuSolventGA2017Aq', 'GRWAqueous2018',
                                       'CC([Pt])O'),
             ('GRWSurface2018', 'PtSurface2023', '[Pt]CC'),
             ('XieGA2022', 'BensonGA', 'CCC'),
             ('GuSolventGA2017Vac', 'GuSolventGA2017Aq', 'C(=O)([Pt])O'),
             ('SalciccioliGA2012', 'GRWSurface2018', 'C([Pt])C[Pt]')]
    variants = []
    for T in (298.15, 500.0):
        for m in ('get_CpoR', 'get_HoRT', 'get_SoR', 'get_GoRT'):
            variants.append({'m': m, 'T': T})
        variants.append({'m': 'get_SoR', 'T': T, 'S_el': True})
        variants.append({'m': 'get_G', 'T': T, 'unit': 'kJ/mol',
                         'S_el': True})
        variants.append({'m': 'get_S', 'T': T, 'unit': 'J/mol/K'})
        variants.append({'m': 'get_H', 'T': T, 'unit': 'kcal/mol'})
    out = []
    # the same quantity at a temperature and a hair beside it, in both
    # orders, at tabulated points and at both ends of the valid range
    for lib, mol in (('BensonGA', 'CCCCCC'), ('GRWSurface2018', '[Pt]CC'),
                     ('FixA', 'CCO')):
        ops = [{'op': 'load', 'client': 0, 'slot': 0, 'lib': lib,
                'how': 'name'},
               {'op': 'decompose', 'client': 0, 'slot': 0, 'mol': mol,
                'out': 'd0'},
               {'op': 'estimate', 'client': 0, 'slot': 0, 'from': 'd0',
                'out': 'e0'},
               {'op': 'estimate', 'client': 0, 'slot': 0, 'from': 'd0',
                'out': 'e1'}]
        for base in (100.0, 298.15, 300.0, 500.0, 1000.0, 1500.0, 2000.0):
            for m in ('get_SoR', 'get_HoRT', 'get_CpoR'):
                for est, seq in (('e0', (0.0, 1e-7, -1e-7)),
                                 ('e1', (4e-7, 0.0, -4e-7))):
                    for d in seq:
                        ops.append({'op': 'evaluate', 'client': 0, 'est': est,
                                    'v': {'m': m, 'T': base + d}})
        out.append({'property': PROP, 'run_seed': 'fixed-neighbours-%s' % lib,
                    'config': {'clients': 1, 'libs': [lib],
                               'fault_kinds': []}, 'ops': ops})
    for a, b, mol in pairs:
        ops = [{'op': 'load', 'client': 0, 'slot': 0, 'lib': a, 'how': 'name'},
               {'op': 'load', 'client': 1, 'slot': 1, 'lib': b, 'how': 'name'},
               {'op': 'decompose', 'client': 0, 'slot': 0, 'mol': mol,
                'out': 'd0'},
               {'op': 'estimate', 'client': 0, 'slot': 0, 'from': 'd0',
                'out': 'e0'}]
        obs = []
        for v in variants:
            obs.append({'op': 'evaluate', 'client': 0, 'est': 'e0',
                        'v': dict(v)})
        for gi in (0, 3, 7):
            for v in variants[:4]:
                obs.append({'op': 'group_eval', 'client': 1, 'slot': 0,
                            'gi': gi, 'v': dict(v)})
        ops += obs
        ops.append({'op': 'merge', 'client': 1, 'slot': 0, 'other': 1,
                    'overwrite': True})
        ops += [dict(o, v=dict(o['v'])) for o in obs]
        ops.append({'op': 'estimate', 'client': 0, 'slot': 0, 'from': 'd0',
                    'out': 'e1'})
        for v in variants:
            ops.append({'op': 'evaluate', 'client': 0, 'est': 'e1',
                        'v': dict(v)})
        ops.append({'op': 'mapping_api', 'client': 0, 'slot': 0})
        out.append({'property': PROP, 'run_seed': 'fixed-%s-%s' % (a, b),
                    'config': {'clients': 2, 'libs': [a, b],
                               'fault_kinds': []}, 'ops': ops})
    # a second property-set type registered between two loads of a library
    # that carries data of that type
    ops = [{'op': 'load', 'client': 0, 'slot': 0, 'lib': 'XieGA2022',
            'how': 'name'},
           {'op': 'load', 'client': 0, 'slot': 1, 'lib': 'FixC', 'how': 'name'},
           {'op': 'decompose', 'client': 0, 'slot': 1, 'mol': 'CCC',
            'out': 'd0'},
           {'op': 'register', 'client': 1},
           {'op': 'load', 'client': 1, 'slot': 2, 'lib': 'FixC', 'how': 'name'},
           {'op': 'mapping_api', 'client': 1, 'slot': 2},
           {'op': 'estimate', 'client': 1, 'slot': 2, 'from': 'd0',
            'out': 'e0'},
           {'op': 'evaluate', 'client': 1, 'est': 'e0',
            'v': {'m': 'get_HoRT', 'T': 500.0}},
           {'op': 'load', 'client': 0, 'slot': 3, 'lib': 'XieGA2022',
            'how': 'path'},
           {'op': 'merge', 'client': 0, 'slot': 1, 'other': 2,
            'overwrite': False},
           {'op': 'mapping_api', 'client': 0, 'slot': 1}]
    out.append({'property': PROP, 'run_seed': 'fixed-register',
                'config': {'clients': 2, 'libs': ['XieGA2022', 'FixC'],
                           'fault_kinds': []}, 'ops': ops})
    # boundary molecules: the empty structure (a legal SMILES, no atoms, no
    # descriptors), a single atom, a molecule the scheme cannot decompose;
    # other decompositions in between; everything evaluated with and without
    # the elemental reference
    for libname in ('BensonGA', 'FixA', 'GRWSurface2018'):
        ops = [{'op': 'load', 'client': 0, 'slot': 0, 'lib': libname,
                'how': 'name'}]
        mols = ['', 'C', 'CCO', '[H][H]', 'not_a_smiles', '', 'O']
        for i, m in enumerate(mols):
            ops.append({'op': 'decompose', 'client': 0, 'slot': 0, 'mol': m,
                        'out': 'b%d' % i})
        for i in (0, 2, 1, 5, 6):
            ops.append({'op': 'estimate', 'client': 0, 'slot': 0,
                        'from': 'b%d' % i, 'out': 'eb%d' % i})
            for v in ({'m': 'get_SoR', 'T': 298.15, 'S_el': True},
                      {'m': 'get_G', 'T': 500.0, 'unit': 'kJ/mol',
                       'S_el': True},
                      {'m': 'get_HoRT', 'T': 298.15},
                      {'m': 'get_SoR', 'T': 298.15}):
                ops.append({'op': 'evaluate', 'client': 0, 'est': 'eb%d' % i,
                            'v': dict(v)})
        # the caller asked the mapping of 'CCO' for groups it does not have
        # (zero counts are left behind) before estimating from it
        for j, touch in enumerate((0, 5, 11)):
            ops.append({'op': 'estimate', 'client': 0, 'slot': 0,
                        'from': 'b2', 'out': 'et%d' % j, 'touch': touch})
            for v in ({'m': 'get_SoR', 'T': 298.15, 'S_el': True},
                      {'m': 'get_HoRT', 'T': 298.15}):
                ops.append({'op': 'evaluate', 'client': 0, 'est': 'et%d' % j,
                            'v': dict(v)})
        out.append({'property': PROP, 'run_seed': 'fixed-boundary-%s' % libname,
                    'config': {'clients': 1, 'libs': [libname],
                               'fault_kinds': []}, 'ops': ops})
    # objects made with the public constructor (default arguments): a merge
    # into one of them must not show in its siblings, nor in one made later
    for src, uq in (('XieGA2022', 'GRWSurface2018'), ('FixA', 'PtSurface2023')):
        mol = 'CCC'
        ops = [{'op': 'load', 'client': 0, 'slot': 0, 'lib': uq, 'how': 'name'},
               {'op': 'load', 'client': 0, 'slot': 1, 'lib': src,
                'how': 'name'},
               {'op': 'construct', 'client': 0, 'slot': 2, 'from': 1},
               {'op': 'construct', 'client': 1, 'slot': 3, 'from': 1},
               {'op': 'decompose', 'client': 1, 'slot': 3, 'mol': mol,
                'out': 'd0'},
               {'op': 'estimate', 'client': 1, 'slot': 3, 'from': 'd0',
                'out': 'e0'},
               {'op': 'evaluate', 'client': 1, 'est': 'e0',
                'v': {'m': 'get_HoRT', 'T': 500.0}},
               {'op': 'merge', 'client': 0, 'slot': 2, 'other': 0,
                'overwrite': True},
               {'op': 'mapping_api', 'client': 1, 'slot': 3},
               {'op': 'estimate', 'client': 1, 'slot': 3, 'from': 'd0',
                'out': 'e1'},
               {'op': 'evaluate', 'client': 1, 'est': 'e1',
                'v': {'m': 'get_HoRT', 'T': 500.0}},
               {'op': 'construct', 'client': 0, 'slot': 4, 'from': 1},
               {'op': 'estimate', 'client': 0, 'slot': 4, 'from': 'd0',
                'out': 'e2'},
               {'op': 'evaluate', 'client': 0, 'est': 'e2',
                'v': {'m': 'get_SoR', 'T': 500.0}}]
        out.append({'property': PROP, 'run_seed': 'fixed-ctor-%s' % src,
                    'config': {'clients': 2, 'libs': [src, uq],
                               'fault_kinds': []}, 'ops': ops})
    # an estimate made from a plain copy of the descriptors right after its
    # own decomposition, kept while the library decomposes other molecules,
    # evaluated before and after (the plain copy is legitimate here: the
    # library's last molecule *is* the estimate's own when it is made)
    for lib, mol, others in (('BensonGA', 'CCCCCC', ['C=C', 'CO']),
                             ('FixA', 'CCO', ['C', 'CC(C)C']),
                             ('GRWSurface2018', '[Pt]CC', ['C([Pt])C[Pt]'])):
        vs = [{'m': 'get_SoR', 'T': 298.15, 'S_el': True},
              {'m': 'get_GoRT', 'T': 500.0, 'S_el': True},
              {'m': 'get_S', 'T': 500.0, 'unit': 'J/mol/K', 'S_el': True},
              {'m': 'get_HoRT', 'T': 500.0}]
        ops = [{'op': 'load', 'client': 0, 'slot': 0, 'lib': lib,
                'how': 'name'},
               {'op': 'decompose', 'client': 0, 'slot': 0, 'mol': mol,
                'out': 'd0'},
               {'op': 'estimate', 'client': 0, 'slot': 0, 'from': 'd0',
                'out': 'e0', 'plain': True},
               {'op': 'estimate', 'client': 0, 'slot': 0, 'from': 'd0',
                'out': 'e1'}]
        for est in ('e0', 'e1'):
            ops += [{'op': 'evaluate', 'client': 0, 'est': est, 'v': dict(v)}
                    for v in vs]
        for i, other in enumerate(others):
            ops.append({'op': 'decompose', 'client': 1, 'slot': 0,
                        'mol': other, 'out': 'x%d' % i})
            for est in ('e0', 'e1'):
                ops += [{'op': 'evaluate', 'client': 0, 'est': est,
                         'v': dict(v)} for v in vs]
        out.append({'property': PROP, 'run_seed': 'fixed-kept-%s' % lib,
                    'config': {'clients': 2, 'libs': [lib],
                               'fault_kinds': []}, 'ops': ops})
    # polling for a file that is not there yet: many failing loads in one
    # process, then the load, and everything after it, as in a fresh process
    for lib, fname, n, mol in (('FixA', 'extra.yaml', 40, 'CCO'),
                               ('BensonGA', 'strain.yaml', 20, 'CCC'),
                               ('GRWSurface2018', 'scheme.yaml', 40, '[Pt]CC')):
        bad = {'op': 'load', 'client': 0, 'slot': 0, 'lib': lib,
               'how': 'name', 'faults': [{'kind': 'ENOENT', 'file': fname,
                                          'skip': 0}]}
        ops = [dict(bad, faults=[dict(bad['faults'][0])]) for _ in range(n)]
        ops += [{'op': 'load', 'client': 0, 'slot': 0, 'lib': lib,
                 'how': 'name'},
                {'op': 'mapping_api', 'client': 0, 'slot': 0},
                {'op': 'decompose', 'client': 0, 'slot': 0, 'mol': mol,
                 'out': 'd0'},
                {'op': 'estimate', 'client': 0, 'slot': 0, 'from': 'd0',
                 'out': 'e0'},
                {'op': 'evaluate', 'client': 0, 'est': 'e0',
                 'v': {'m': 'get_HoRT', 'T': 500.0}},
                {'op': 'load', 'client': 1, 'slot': 1, 'lib': 'XieGA2022',
                 'how': 'path'},
                {'op': 'mapping_api', 'client': 1, 'slot': 1}]
        out.append({'property': PROP, 'run_seed': 'fixed-poll-%s' % lib,
                    'config': {'clients': 2, 'libs': [lib, 'XieGA2022'],
                               'fault_kinds': ['ENOENT']}, 'ops': ops})
    # a library with a scheme and no groups collects two others: neither
    # source may change, whatever the second merge brings for groups of the
    # first
    for a, b, mol in (('FixA', 'FixB', 'CCO'), ('XieGA2022', 'BensonGA', 'CCC'),
                      ('GuSolventGA2017Vac', 'GuSolventGA2017Aq',
                       'C(=O)([Pt])O')):
        ops = [{'op': 'load', 'client': 0, 'slot': 0, 'lib': a, 'how': 'name'},
               {'op': 'load', 'client': 1, 'slot': 1, 'lib': b, 'how': 'name'},
               {'op': 'construct', 'client': 0, 'slot': 2, 'from': 0,
                'empty': True},
               {'op': 'merge', 'client': 0, 'slot': 2, 'other': 0,
                'overwrite': False},
               {'op': 'mapping_api', 'client': 1, 'slot': 0},
               {'op': 'merge', 'client': 0, 'slot': 2, 'other': 1,
                'overwrite': True},
               {'op': 'mapping_api', 'client': 1, 'slot': 0},
               {'op': 'mapping_api', 'client': 1, 'slot': 1},
               {'op': 'decompose', 'client': 1, 'slot': 0, 'mol': mol,
                'out': 'd0'},
               {'op': 'estimate', 'client': 1, 'slot': 0, 'from': 'd0',
                'out': 'e0'},
               {'op': 'evaluate', 'client': 1, 'est': 'e0',
                'v': {'m': 'get_HoRT', 'T': 500.0}},
               {'op': 'evaluate', 'client': 1, 'est': 'e0',
                'v': {'m': 'get_SoR', 'T': 500.0}},
               {'op': 'mapping_api', 'client': 0, 'slot': 2}]
        out.append({'property': PROP, 'run_seed': 'fixed-collect-%s' % a,
                    'config': {'clients': 2, 'libs': [a, b],
                               'fault_kinds': []}, 'ops': ops})
    return out


def plan(tier, verif_seed):
    n = 400 if tier == 'quick' else 4000
    n = int(os.environ.get('VERIF_C15_RUNS', n))
    chunk = 5 if tier == 'quick' else 25
    seeds = [core.H(verif_seed, 'C15', j) for j in range(n)]
    tasks = [{'id': 'h-%d' % j, 'seeds': seeds[j:j + chunk]}
             for j in range(0, n, chunk)]
    # the recorded example history of every open known finding is replayed
    # on every run, so each listed finding is exercised (and printed) and a
    # repaired one is noticed
    from sim import findings
    ex = [dict(ent['example'], property=PROP, run_seed='known-%d' % i,
               config={'clients': 1, 'libs': [], 'fault_kinds': []})
          for i, ent in enumerate(findings.load())
          if ent['property'] == PROP and ent.get('status') == 'open'
          and ent.get('example', {}).get('ops')]
    if ex:
        tasks.append({'id': 'known-finding-examples', 'seeds': [],
                      'specs': ex})
    for i, sp in enumerate(fixed_histories()):
        tasks.append({'id': 'fixed-%d' % i, 'seeds': [], 'specs': [sp]})
    return tasks


def _grams(spec, hist):
    """op-kind 3-grams annotated with the sharing relation."""
    out = set()
    seq = []
    for op in spec['ops']:
        rel = op.get('slot', op.get('est', ''))
        seq.append((op['op'], rel))
    for i in range(len(seq) - 2):
        a, b, c = seq[i:i + 3]
        out.add('%s>%s%s>%s%s' % (a[0], b[0], '=' if b[1] == a[1] else '~',
                                  c[0], '=' if c[1] == b[1] else '~'))
    return out


def run_task(task):
    results = []
    specs = [(seed, gen_spec(seed)) for seed in task['seeds']]
    specs += [(sp['run_seed'], sp) for sp in task.get('specs') or []]
    for seed, spec in specs:
        viols, dig, h = execute_spec(spec)
        for v in viols:
            v['spec'] = spec
            v['run'] = 'h%s' % seed
        by = {}
        kept = []
        for v in viols:
            by[v['signature']] = by.get(v['signature'], 0) + 1
            if by[v['signature']] <= 1:
                kept.append(v)
        results.append({
            'id': 'h%s' % seed, 'digest': dig, 'violations': kept,
            'violation_counts': by, 'stats': h['stats'],
            'probes': h['probes'],
            'grams': sorted(_grams(spec, h)),
            'opsdigest': core.digest(spec['ops'])[:16],
            'global_digests': h['global_digests'],
            'refs': h['refs'],
            'ref_samples': h['ref_samples'],
            'lineages': h.get('lineages', {}),
            'nontrivial': h['stats']['compared'] >= 1 and
            h['stats']['ops'] >= 2,
            'faulted': bool(spec['config']['fault_kinds']),
            'sample': {'config': spec['config'], 'ops': spec['ops'][:12],
                       'n_ops': len(spec['ops'])},
        })
    return results


def summarise(results):
    agg = {'ops': 0, 'skipped': 0, 'compared': 0}
    faults = {}
    probes = {}
    grams = set()
    gds = set()
    nontrivial = set()
    ff = fi = 0
    refs = {}
    for r in results:
        for k in agg:
            agg[k] += r['stats'][k]
        for k, v in r['stats']['faults'].items():
            faults[k] = faults.get(k, 0) + v
        for k, v in r['probes'].items():
            probes[k] = probes.get(k, 0) + v
        grams.update(r['grams'])
        gds.update(r['global_digests'])
        if r['nontrivial']:
            nontrivial.add(r['opsdigest'])
        if r['faulted']:
            fi += 1
        else:
            ff += 1
        for k, v in r['refs'].items():
            refs.setdefault(k, v)      # disagreement: see cross_cell()
    samples = [r['sample'] for r in results[:3]]
    return {
        'evaluations': len(results),
        'distinct_nontrivial': len(nontrivial),
        'rule': 'one evaluation = one seeded history (2-40 operations of 1-3 '
                'interleaved clients over 1-3 of 11 libraries, optional '
                'transient file faults on loads); counted as distinct and '
                'non-trivial when its operation list is distinct (sha256) '
                'and at least one observation made after >= 1 earlier '
                'operation was compared with its fresh-process reference',
        'samples': samples,
        'operations_executed': agg['ops'],
        'operations_skipped_missing_input': agg['skipped'],
        'observations_compared_with_fresh_reference': agg['compared'],
        'distinct_fresh_reference_keys': len(refs),
        'distinct_op_3grams_with_sharing_relation': len(grams),
        'distinct_library_state_digests': len(gds),
        'faults_fired': faults,
        'runs_fault_free': ff, 'runs_fault_injecting': fi,
        'probes': probes,
        'simulated_time': {'unit': 'operations (atomic scheduler steps)',
                           'total': agg['ops']},
    }


def cross_cell(cells, prop):
    """Oracle 3: the same reference key computed in fresh processes --
    of one cell (different workers) or under different hash seeds -- must
    agree."""
    merged = {}
    viols = []
    seen = set()
    lineages = {}
    for hs in sorted(cells):
        for r in cells[hs]:
            lineages.update(r.get('lineages') or {})
    for hs in sorted(cells):
        for r in cells[hs]:
            for k, v in r['refs'].items():
                if k in merged and merged[k][1] != v and k not in seen:
                    seen.add(k)
                    viols.append(core.violation(
                        PROP, 'fresh-nondeterminism', 'fresh-differs',
                        'reference-differs-between-fresh-processes',
                        {'key': k[:300], 'hash_seeds': [merged[k][0], hs],
                         'lineage': lineages.get(k.split('|')[0])}))
                merged.setdefault(k, (hs, v))
    for v in viols:
        v['spec'] = {'property': PROP, 'ops': [], 'note': 'see detail.key'}
        v['run'] = 'cross-cell'
    return viols[:3]


def fresh_value(doc):
    """Run in a genuinely new interpreter (no fork shortcut): compute one
    reference chain in-process."""
    libops.quiet()
    state = _ref_setup_any(doc['lineage'])
    return core.digest(_ref_chain_any(state, doc['chain']))[:16]


def post_check(results, tier, run_fresh):
    """Validate the fork shortcut: a sample of reference values is
    recomputed in genuinely new interpreters under another hash seed."""
    samples = {}
    for r in results:
        samples.update(r.get('ref_samples') or {})
    keys = sorted(samples)
    k = 8 if tier == 'quick' else 48
    step = max(1, len(keys) // k)
    chosen = keys[::step][:k]
    docs = [{'lineage': samples[key][0], 'chain': samples[key][1]}
            for key in chosen]
    got = run_fresh(docs)
    for key, val in zip(chosen, got):
        if val != samples[key][2]:
            raise RuntimeError(
                'fork shortcut invalid: reference %s is %s in a forked '
                'zygote child but %s in a new interpreter'
                % (key[:200], samples[key][2], val))
    return [], {'reference_values_revalidated_in_new_interpreters': len(chosen)}


def shrink(spec, signature):
    def test(ops):
        s = dict(spec)
        s['ops'] = ops
        viols, _, _ = execute_spec(s)
        return any(v['signature'] == signature for v in viols)
    ops = ddmin(spec['ops'], test, max_tests=250)
    # drop fault plans that are not needed
    for i, op in enumerate(ops):
        if op.get('faults'):
            cand = [dict(o) for o in ops]
            cand[i].pop('faults')
            if test(cand):
                ops = cand
    new = dict(spec)
    new['ops'] = ops
    new['shrunk_from_ops'] = len(spec['ops'])
    return new
