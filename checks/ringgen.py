"""Seeded generator of RING texts (fragments and unimolecular rules) and of
text-stream faults (DESIGN 3.1).  Independent of pgradd: it mirrors the
documented grammar, it does not import it."""
import re

MOL_PREFIX = (['positive', 'negative', 'neutral'],
              ['aromatic', 'olefinic', 'paraffinic'],
              ['cyclic', 'linear'])
ATOM_PREFIX = ['aromatic', 'nonaromatic', 'ringatom', 'nonringatom',
               'allylic']
ELEMENTS = ['C', 'O', 'N', 'H', 'S', 'P', 'Pt', 'Ru', 'Cl', 'Ni']
CLASSES = ['$', '&', 'X', 'any atom', 'heteroatom', 'heavy atom', 'M']
AROMATIC = ['c', 'n', 'o']
SUFFIX = ['+', '-', '.', ':', '+.', '-.', '*', '?', ':.']
BONDS = ['single', 'double', 'triple', 'quadruple', 'ring', 'nonring',
         'aromatic', 'any', 'strong', 'partial']
CMP = ['', '>', '=', '<', '>=', '<=']
BOOLS = ['!', '||', '&&', '+', '-']
STEREO = ['cis', 'trans', 'notspecified']
WS = [' ', ' ', ' ', '\n', '\n    ', '\t', '  ']

# alphabet used by token-level faults: grammar literals, labels, punctuation
TOKEN_ALPHABET = (
    ['fragment', 'rule', 'reactant', 'labeled', 'bond to', 'bond', 'to',
     'ringbond', 'connected to', 'with', 'in ring of size', 'in', 'ring',
     'has', 'radical electrons', 'group', 'stereo double bond',
     'for double bond between', 'and', 'constraints{', 'break', 'form',
     'modify bond', 'increase bond order', 'decrease bond order',
     'modify atomtype', 'modify number of radical',
     'increase number of radical', 'decrease number of radical',
     'increase formal charge', 'decrease formal charge', '.size', '.charge',
     'is cyclic', 'is aromatic', 'contains', 'of', 'duplicates', '=>',
     '{', '}', '(', ')', ',', '!', '1', '2', '9', '12',
     'c1', 'c2', 'a1', 'zz9', 'r1', '_', 'x_1',
     # comment and string syntax of other languages
     '//', '// done', '#', '# note', '/*', '*/', '/* x */', ';', '--', '%',
     '"', "'", '<!--', '\\', '@', '~', '`', '|', '^']
    + ELEMENTS + CLASSES + AROMATIC + SUFFIX + BONDS + CMP[1:] + BOOLS
    + STEREO + ATOM_PREFIX + MOL_PREFIX[0] + MOL_PREFIX[1] + MOL_PREFIX[2])


def _ws(rng, layout):
    if not layout:
        return ' '
    return rng.choice(WS)


def gen_atomtype(rng, rich=True):
    s = ''
    if rich and rng.random() < 0.15:
        s += rng.choice(ATOM_PREFIX) + ' '
    r = rng.random()
    if r < 0.6:
        s += rng.choice(ELEMENTS)
    elif r < 0.85:
        s += rng.choice(CLASSES)
    elif r < 0.95:
        s += rng.choice(AROMATIC)
    else:
        s += rng.choice(['Zz', 'Xx', 'Q'])      # unknown element
    if rng.random() < 0.45:
        s += rng.choice(SUFFIX)
    return s


def gen_cnum(rng):
    sign = rng.choice(['-', '+', '- ']) if rng.random() < 0.08 else ''
    # edge values (0, 1) are drawn more often than the other digits
    digit = rng.choice([0, 0, 0, 1, 1, 2, 3, 4, 5, 6, 7, 8, 9])
    return rng.choice(CMP) + sign + str(digit)


def gen_constraint(rng):
    neg = ''
    r = rng.random()
    if r < 0.25:
        neg = '! '
    elif r < 0.30:
        neg = rng.choice(BOOLS[1:]) + ' '       # unsupported booleans
    k = rng.random()
    if k < 0.5:
        s = neg + 'connected to '
        if rng.random() < 0.6:
            s += gen_cnum(rng) + ' '
        if rng.random() < 0.1:
            s += 'group ' + rng.choice(['g1', 'alkyl'])
        else:
            s += gen_atomtype(rng, rich=False)
        if rng.random() < 0.5:
            s += ' with ' + rng.choice(BONDS) + ' bond'
        return s
    if k < 0.7:
        return neg + 'in ring of size ' + gen_cnum(rng)
    if k < 0.85:
        return neg + 'has ' + gen_cnum(rng) + ' radical electrons'
    return neg + 'in ' + gen_cnum(rng) + ' ring'


def gen_constraints(rng):
    n = 1 if rng.random() < 0.7 else rng.randrange(2, 4)
    return '{' + ', '.join(gen_constraint(rng) for _ in range(n)) + '}'


def gen_molquery(rng, natoms, layout=True, undefined_label=False):
    """Return (text, labels)."""
    labels = []
    parts = []
    stem = rng.choice(['c', 'a', 'x', 'at_', 'L'])
    odd = rng.random() < 0.06
    for i in range(natoms):
        lab = '%s%d' % (stem, i + 1)
        if odd and rng.random() < 0.5:
            # labels that collide with names used inside the reader
            lab = rng.choice(['AtomLabel', 'Symbols', 'BondType', 'Atom',
                              'labeled', 'fragment', 'C', 'H', '_', '1'])
            if lab in labels:
                lab = lab + str(i)
        s = gen_atomtype(rng) + ' labeled ' + lab
        if i > 0:
            to = rng.choice(labels)
            if undefined_label and rng.random() < 0.5:
                to = 'zz9'
            s += ' ' + rng.choice(BONDS) + ' bond to ' + to
        if rng.random() < 0.25:
            s += ' ' + gen_constraints(rng)
        labels.append(lab)
        parts.append(s)
        if len(labels) >= 3 and rng.random() < 0.15:
            a, b = rng.sample(labels, 2)
            parts.append('ringbond %s %s bond to %s'
                         % (a, rng.choice(BONDS), b))
        if len(labels) >= 4 and rng.random() < 0.08:
            a, b, c, d = rng.sample(labels, 4)
            neg = '! ' if rng.random() < 0.3 else ''
            parts.append('stereo double bond %s %s%s to %s for double bond '
                         'between %s and %s'
                         % (a, neg, rng.choice(STEREO), b, c, d))
    text = ''
    for i, p in enumerate(parts):
        text += (_ws(rng, layout) if i else '') + p
    return text, labels


def gen_prefix(rng):
    s = ''
    for opts in MOL_PREFIX:
        if rng.random() < 0.12:
            s += rng.choice(opts) + ' '
    return s


def gen_fragment(rng, max_atoms=8, layout=True):
    n = rng.randrange(1, max_atoms + 1)
    body, _ = gen_molquery(rng, n, layout,
                           undefined_label=rng.random() < 0.05)
    name = rng.choice(['a', 'frag1', 'C3Chain', 'x_y', 'f'])
    return (_ws(rng, layout) if rng.random() < 0.3 else '') + gen_prefix(rng) \
        + 'fragment ' + name + _ws(rng, layout) * (rng.random() < 0.5) + '{' \
        + _ws(rng, layout) + body + _ws(rng, layout) * (rng.random() < 0.7) \
        + '}' + (_ws(rng, layout) if rng.random() < 0.3 else '')


def gen_transformation(rng, labels):
    a = rng.choice(labels)
    b = rng.choice(labels)
    k = rng.randrange(11)
    if k == 0:
        bt = rng.choice(BONDS) + ' ' if rng.random() < 0.5 else ''
        return 'break %sbond (%s, %s)' % (bt, a, b)
    if k == 1:
        bt = rng.choice(BONDS) + ' ' if rng.random() < 0.5 else ''
        return 'form %sbond (%s, %s)' % (bt, a, b)
    if k == 2:
        return 'increase bond order (%s, %s)' % (a, b)
    if k == 3:
        return 'decrease bond order (%s, %s)' % (a, b)
    if k == 4:
        return 'modify bond (%s, %s, %s)' % (a, b, rng.choice(BONDS))
    if k == 5:
        return 'modify atomtype (%s, %s)' % (a, gen_atomtype(
            rng, rng.random() < 0.3))
    if k == 6:
        return 'modify number of radical (%s, %d)' % (a, rng.randrange(4))
    if k == 7:
        return 'increase number of radical (%s)' % a
    if k == 8:
        return 'decrease number of radical (%s)' % a
    if k == 9:
        return 'increase formal charge (%s)' % a
    return 'decrease formal charge (%s)' % a


def gen_cterm(rng, names=('r1',)):
    """One rule constraint (grammar: Constraint)."""
    r = rng.choice(list(names))
    k = rng.randrange(10)
    if k == 0:
        chain = r + '.size'
        while rng.random() < 0.3:
            chain += ' ' + rng.choice(BOOLS) + ' ' + rng.choice(list(names)) \
                + '.size'
        return chain + ' ' + gen_cnum(rng)
    if k == 1:
        chain = r + '.charge'
        while rng.random() < 0.3:
            chain += ' ' + rng.choice(BOOLS) + ' ' + rng.choice(list(names)) \
                + '.charge'
        return chain + ' ' + gen_cnum(rng)
    if k == 2:
        return r + ' is cyclic'
    if k == 3:
        return r + ' is ' + rng.choice(['aromatic', 'oxygenate',
                                        'heteroaromatic', 'bridged'])
    if k == 4:
        return r + ' is ' + rng.choice(['CCO', 'paraffin', 'C=C', '"CCO"',
                                        'C1CC1', '[CH3]'])
    if k == 5:
        f = ''.join(rng.choice(['C', 'H', 'O', 'N', 'Cl', 'Pt']) +
                    (str(rng.randrange(0, 20)) if rng.random() < 0.7 else '')
                    for _ in range(rng.randrange(1, 4)))
        return r + '.formula is ' + f
    if k == 6:
        return r + ' contains ' + (gen_cnum(rng) + ' of '
                                   if rng.random() < 0.6 else '') + 'f'
    if k == 7:
        return r + ' contains ' + (gen_cnum(rng) + ' of '
                                   if rng.random() < 0.5 else '') + \
            ('group ' if rng.random() < 0.3 else '') + \
            rng.choice(['alkyl', 'g1'])
    if k == 8:
        return r + ' is cyclic'
    return rng.choice(['zz', 'r9']) + ' is aromatic'     # unknown reactant


def gen_cexpr(rng, depth, names=('r1',)):
    """A constraint chain (grammar: ConstraintChain / BranchConstraint):
    terms joined by boolean operators, parenthesised to `depth` levels."""
    s = ''
    if rng.random() < 0.2:
        s += rng.choice(BOOLS) + ' '
    if depth > 0 and rng.random() < 0.6:
        s += '(' + gen_cexpr(rng, depth - 1, names) + ')'
    else:
        s += gen_cterm(rng, names)
    if rng.random() < 0.3:
        s += ' ' + rng.choice(BOOLS) + ' ' + gen_cexpr(rng, depth, names)
    return s


def gen_rule_constraints(rng, names=('r1',)):
    body = gen_cexpr(rng, rng.choice([0, 0, 1, 2, 3, 5]), names)
    frags = ''
    if ' of f' in body or body.endswith(' f') or rng.random() < 0.1:
        frags = 'fragment f{C labeled q1} '
        if rng.random() < 0.2:
            frags += 'fragment f2{O labeled q1 C labeled q2 single bond to q1} '
    return 'constraints{ ' + frags + body + ' }'


SAFE_TERMS = ['r1 is cyclic', 'r1 is aromatic', 'r1.size >2', 'r1.charge =0',
              'r1 is paraffin', 'r1.formula is C2H6', 'r1 contains alkyl',
              'r1.size && r1.size <9', '! r1 is bridged']


SAFE_ATOM_CONSTRAINTS = ['connected to >1 C', '! connected to O with double bond',
                         'in ring of size >4', 'has 1 radical electrons',
                         'connected to =2 H', '! in ring of size 3']


def _safe_term(rng, pure=True):
    # terms the grammar accepts, so that a deep structure is read to its end
    # (pure), or now and then any term
    if pure or rng.random() < 0.9:
        return rng.choice(SAFE_TERMS)
    return gen_cterm(rng)


DEEP_SIZES = [12, 16, 20, 30, 45, 60, 90, 150, 300]
DEEP_KINDS = 9


def gen_deep(rng, k=None, n=None, pure=None):
    """Size strata for the recursive productions of the grammar: one
    production repeated / nested n times in an otherwise small text.
    Returns (text, description)."""
    if n is None:
        n = rng.choice(DEEP_SIZES)
    if k is None:
        k = rng.randrange(DEEP_KINDS)
    if pure is None:
        pure = rng.random() < 0.7
    head = 'rule deep{ reactant r1{ C labeled c1 } '
    tail = ' increase number of radical (c1) }'
    if k == 0:
        # nested parentheses around one constraint, closed or cut off
        closed = rng.random() < 0.6
        body = '(' * n + _safe_term(rng, pure) + (')' * n if closed else
                                           ')' * rng.randrange(0, n))
        return head + 'constraints{ ' + body + ' }' + tail, 'nested-parens'
    if k == 1:
        body = (' ' + rng.choice(['&&', '||']) + ' ').join(
            _safe_term(rng, pure) for _ in range(n))
        return head + 'constraints{ ' + body + ' }' + tail, 'constraint-chain'
    if k == 2:
        # every level holds a chain of two
        body = _safe_term(rng, pure)
        for _ in range(min(n, 90)):
            body = '(' + body + ' && ' + _safe_term(rng, pure) + ')'
        return head + 'constraints{ ' + body + ' }' + tail, 'nested-chains'
    if k == 3:
        body = ' '.join('fragment f%d{C labeled q1}' % i for i in range(n))
        return head + 'constraints{ ' + body + ' r1 contains f1 }' + tail, \
            'fragment-chain'
    if k == 4:
        body = ' && '.join(['r1.size'] * n) + ' >2'
        return head + 'constraints{ ' + body + ' }' + tail, 'size-chain'
    if k == 5:
        body = ''.join(rng.choice(['C', 'H', 'O']) + str(rng.randrange(1, 9))
                       for _ in range(n))
        return head + 'constraints{ r1.formula is ' + body + ' }' + tail, \
            'formula-chain'
    if k == 6:
        steps = ' '.join(gen_transformation(rng, ['c1']) for _ in range(n))
        return head + steps + ' }', 'transformation-chain'
    if k == 7:
        cons = ', '.join(rng.choice(SAFE_ATOM_CONSTRAINTS) if pure
                         else gen_constraint(rng) for _ in range(n))
        return 'fragment deep{ C labeled c1 {' + cons + '} }', \
            'atom-constraint-chain'
    labs = ['c%d' % (i + 1) for i in range(n)]
    atoms = ['C labeled c1'] + ['C labeled %s single bond to %s' % (b, a)
                                for a, b in zip(labs, labs[1:])]
    mp = ', '.join('%s => d%d' % (l, i + 1) for i, l in enumerate(labs))
    return 'rule deep{ reactant r1{ %s } reactant r2 duplicates r1 (%s) ' \
        'form bond (c1, d1) }' % (' '.join(atoms), mp), 'label-mapping-chain'


def gen_rule(rng, max_atoms=4, layout=True):
    nreact = 1 if rng.random() < 0.7 else 2
    labels = []
    s = 'rule ' + rng.choice(['a', 'CH_scission', 'r_1']) + '{'
    names = []
    for ri in range(nreact):
        name = 'r%d' % (ri + 1)
        if ri and rng.random() < 0.25:
            name = names[0]                  # the same reactant name twice
        kind = rng.random()
        if ri and kind < 0.2 and labels:
            # duplicate of an earlier reactant with a label mapping
            mp = ', '.join('%s => d%d' % (l, i + 1)
                           for i, l in enumerate(labels))
            if rng.random() < 0.3 and ', ' in mp:
                mp = mp.rsplit(', ', 1)[0]   # incomplete mapping
            s += _ws(rng, layout) + 'reactant %s duplicates %s (%s)' % (
                name, names[0], mp)
            labels = labels + ['d%d' % (i + 1) for i in range(len(labels))]
        elif kind < 0.3:
            s += _ws(rng, layout) + 'reactant %s group %s (g1 => e1, g2 => e2)' \
                % (name, rng.choice(['alkyl', 'g1']))
            labels = labels + ['e1', 'e2']
        else:
            n = rng.randrange(1, max_atoms + 1)
            body, labs = gen_molquery(rng, n, layout)
            if ri:
                # distinct labels for the second reactant (usually)
                if rng.random() < 0.8:
                    for l in sorted(set(labs), key=len, reverse=True):
                        body = re.sub(r'\b%s\b' % re.escape(l), 'q' + l, body)
                    labs = ['q' + l for l in labs]
            s += _ws(rng, layout) + gen_prefix(rng) + 'reactant %s{' % name \
                + _ws(rng, layout) + body + '}'
            labels = labels + labs
        names.append(name)
    if rng.random() < 0.1:
        labels = labels + ['zz9']
    if rng.random() < 0.2:
        s += _ws(rng, layout) + gen_rule_constraints(
            rng, tuple(sorted(set(names))) or ("r1",))
    for _ in range(rng.randrange(1, 4)):
        s += _ws(rng, layout) + gen_transformation(rng, labels or ['c1'])
    return s + _ws(rng, layout) * (rng.random() < 0.5) + '}'


SEMANTIC_FAULTS = ['none', 'cross_reactant_bond', 'cross_reactant_bond',
                   'undefined_label', 'self_bond_statement', 'self_bond_atom',
                   'same_reactant_name', 'duplicate_label', 'wrong_bond_type',
                   'nonbonded_pair', 'repeat_bond', 'label_swap']


def _plain_reactant(rng, name, stem, natoms):
    """A syntactically and semantically plain reactant: a chain of C/H/O/N
    atoms, single or double bonds, '?' or no suffix."""
    lines = []
    labels = []
    bonds = []
    for i in range(natoms):
        lab = '%s%d' % (stem, i + 1)
        a = rng.choice(['C', 'C', 'C', 'H', 'O', 'N']) + rng.choice(['', '?'])
        s = '%s labeled %s' % (a, lab)
        if i:
            to = rng.choice(labels)
            bt = rng.choice(['single', 'single', 'double'])
            s += ' %s bond to %s' % (bt, to)
            bonds.append((lab, to, bt))
        labels.append(lab)
        lines.append(s)
    return name, labels, bonds, lines


def gen_semantic_rule(rng):
    """A well-formed rule with (usually) one *semantic* fault: label
    misuse, bond statements across reactants, self bonds, repeated bonds,
    clashing names.  These reach the reader's own error paths, behind the
    syntax."""
    fault = rng.choice(SEMANTIC_FAULTS)
    nre = 2 if fault in ('cross_reactant_bond', 'same_reactant_name') or \
        rng.random() < 0.3 else 1
    reacts = []
    for ri in range(nre):
        n = rng.randrange(1, 3) if ri == 0 and rng.random() < 0.5 \
            else rng.randrange(2, 5)
        reacts.append(_plain_reactant(rng, 'r%d' % (ri + 1),
                                      'cd'[ri] if ri < 2 else 'e', n))
    if fault == 'same_reactant_name':
        reacts[1] = (reacts[0][0],) + reacts[1][1:]
    if fault == 'duplicate_label' and reacts[-1][1]:
        name, labels, bonds, lines = reacts[-1]
        lines.append('C labeled %s single bond to %s'
                     % (rng.choice(reacts[0][1]), labels[-1]))
    if fault == 'self_bond_atom':
        name, labels, bonds, lines = reacts[0]
        lines.append('C labeled z9 %s bond to z9'
                     % rng.choice(['single', 'double', 'any']))
    if fault == 'repeat_bond':
        name, labels, bonds, lines = reacts[0]
        if bonds:
            a, b, bt = rng.choice(bonds)
            lines.append('ringbond %s %s bond to %s'
                         % (a, rng.choice(['single', 'double']), b))
    all_labels = [l for r in reacts for l in r[1]]
    all_bonds = [b for r in reacts for b in r[2]]
    # transformations
    trans = []
    kind = rng.choice(['break', 'break', 'modify', 'form', 'increase',
                       'decrease'])
    if fault == 'cross_reactant_bond':
        a = rng.choice(reacts[0][1])
        b = rng.choice(reacts[1][1])
        if rng.random() < 0.5:
            a, b = b, a
    elif fault == 'undefined_label':
        a, b = rng.choice(all_labels), 'zz9'
    elif fault == 'self_bond_statement':
        a = b = rng.choice(all_labels)
    elif fault == 'nonbonded_pair' or not all_bonds:
        a, b = rng.choice(all_labels), rng.choice(all_labels)
    else:
        a, b, bt = rng.choice(all_bonds)
    bt = 'single'
    for (x, y, t) in all_bonds:
        if set((x, y)) == set((a, b)):
            bt = t
    if fault == 'wrong_bond_type':
        bt = 'double' if bt == 'single' else 'single'
    if fault == 'label_swap':
        a, b = b, a
    if kind == 'break':
        trans.append('break %sbond (%s, %s)'
                     % ('' if bt == 'single' and rng.random() < 0.5
                        else bt + ' ', a, b))
        order = {'single': 1, 'double': 2}[bt]
        for _ in range(order):
            trans.append('increase number of radical (%s)' % a)
            trans.append('increase number of radical (%s)' % b)
    elif kind == 'modify':
        trans.append('modify bond (%s, %s, %s)'
                     % (a, b, rng.choice(['single', 'double', 'aromatic',
                                          'triple'])))
    elif kind == 'form':
        trans.append('form %sbond (%s, %s)'
                     % (rng.choice(['', 'single ', 'double ']), a, b))
    elif kind == 'increase':
        trans.append('increase bond order (%s, %s)' % (a, b))
        trans.append('decrease number of radical (%s)' % a)
        trans.append('decrease number of radical (%s)' % b)
    else:
        trans.append('decrease bond order (%s, %s)' % (a, b))
        trans.append('increase number of radical (%s)' % a)
        trans.append('increase number of radical (%s)' % b)
    if rng.random() < 0.3:
        rng.shuffle(trans)
    body = ''
    for name, labels, bonds, lines in reacts:
        body += ' reactant %s{ %s }' % (name, ' '.join(lines))
    return 'rule sem{%s %s }' % (body, ' '.join(trans)), fault


def gen_semantic_fragment(rng):
    fault = rng.choice(['none', 'self_bond_atom', 'undefined_label',
                        'repeat_bond', 'self_ringbond', 'stereo_misuse',
                        'duplicate_label'])
    name, labels, bonds, lines = _plain_reactant(rng, 'f', 'c',
                                                 rng.randrange(2, 6))
    if fault == 'self_bond_atom':
        lines.append('C labeled z9 %s bond to z9'
                     % rng.choice(['single', 'ring', 'any']))
    elif fault == 'undefined_label':
        lines.append('C labeled z9 single bond to nowhere')
    elif fault == 'repeat_bond' and bonds:
        a, b, bt = rng.choice(bonds)
        lines.append('ringbond %s %s bond to %s' % (b, bt, a))
    elif fault == 'self_ringbond':
        a = rng.choice(labels)
        lines.append('ringbond %s single bond to %s' % (a, a))
    elif fault == 'stereo_misuse' and len(labels) >= 2:
        a, b = labels[0], labels[1]
        lines.append('stereo double bond %s cis to %s for double bond '
                     'between %s and %s' % (a, b, rng.choice(labels),
                                            rng.choice(labels)))
    elif fault == 'duplicate_label':
        lines.append('C labeled %s single bond to %s'
                     % (labels[0], labels[-1]))
    return 'fragment sem{ %s }' % ' '.join(lines), fault


def gen_noise(rng):
    k = rng.randrange(6)
    if k == 0:
        return ''
    if k == 1:
        return ''.join(rng.choice(' \n\t') for _ in range(rng.randrange(1, 9)))
    if k == 2:
        return ''.join(chr(rng.randrange(32, 127))
                       for _ in range(rng.randrange(1, 60)))
    if k == 3:
        return ''.join(rng.choice(['é', '中', 'α', '퟿',
                                   ' ', 'C', ' ', '{'])
                       for _ in range(rng.randrange(1, 30)))
    if k == 4:
        return ' '.join(rng.choice(TOKEN_ALPHABET)
                        for _ in range(rng.randrange(1, 25)))
    return rng.choice(['fragment', 'rule', 'fragment a', 'fragment a{',
                       'rule a{reactant', '{', '}', 'fragment {}',
                       'fragment a{}', 'rule a{}', 'reactant r1{C labeled c}'])


_TOK = re.compile(r'\s+|[A-Za-z0-9_]+|.', re.S)


def tokenize(text):
    return _TOK.findall(text)


FAULT_KINDS = ['eof', 'del_token', 'dup_token', 'sub_token', 'ins_token',
               'flip_byte', 'ins_nul', 'ins_nonascii', 'undefined_label',
               'append_token', 'append_fragment', 'eof_in_token',
               'append_after_odd_space']
# characters Python calls white space but RING does not (its filler is
# blank, tab, newline), plus a few that merely look like it
ODD_SPACE = ['\r', '\f', '\v', '\x1c', '\x1d', '\x85', '\xa0', '\u2028',
             '\u2003', '\u3000', '\x00', '\ufeff', '\u200b']


def apply_fault(rng, text, kind):
    """Return (new_text, fault_record)."""
    if kind == 'eof':
        k = rng.randrange(0, len(text) + 1)
        return text[:k], {'kind': 'eof', 'at': k}
    if kind == 'eof_in_token':
        # cut right after an identifier character: the scanner's look-ahead
        # then runs into end of input
        pos = [m.end() for m in re.finditer(r'[A-Za-z0-9_]', text)]
        if not pos:
            return text, {'kind': 'eof_in_token', 'at': None}
        k = rng.choice(pos)
        return text[:k], {'kind': 'eof_in_token', 'at': k}
    toks = tokenize(text)
    idx = [i for i, t in enumerate(toks) if not t.isspace()]
    if kind in ('del_token', 'dup_token', 'sub_token', 'ins_token') \
            and idx:
        i = rng.choice(idx)
        if kind == 'del_token':
            new = toks[:i] + toks[i + 1:]
            rec = {'kind': kind, 'token': toks[i], 'index': i}
        elif kind == 'dup_token':
            new = toks[:i + 1] + [' ', toks[i]] + toks[i + 1:]
            rec = {'kind': kind, 'token': toks[i], 'index': i}
        elif kind == 'sub_token':
            t = rng.choice(TOKEN_ALPHABET)
            new = toks[:i] + [t] + toks[i + 1:]
            rec = {'kind': kind, 'token': toks[i], 'by': t, 'index': i}
        else:
            t = rng.choice(TOKEN_ALPHABET)
            new = toks[:i] + [t, ' '] + toks[i:]
            rec = {'kind': kind, 'token': t, 'index': i}
        return ''.join(new), rec
    if kind == 'flip_byte' and text:
        k = rng.randrange(len(text))
        c = chr((ord(text[k]) ^ (1 << rng.randrange(7))) & 0x7f)
        return text[:k] + c + text[k + 1:], {'kind': kind, 'at': k,
                                              'to': ord(c)}
    if kind == 'ins_nul':
        k = rng.randrange(0, len(text) + 1)
        return text[:k] + '\x00' + text[k:], {'kind': kind, 'at': k}
    if kind == 'ins_nonascii':
        k = rng.randrange(0, len(text) + 1)
        c = rng.choice(['é', '中', 'α', ' ', ' ',
                        '١', '²'])
        return text[:k] + c + text[k:], {'kind': kind, 'at': k, 'ch': ord(c)}
    if kind == 'undefined_label':
        ms = list(re.finditer(r'bond to (\w+)', text))
        if ms:
            m = rng.choice(ms)
            return text[:m.start(1)] + 'zz9' + text[m.end(1):], \
                {'kind': kind, 'label': m.group(1)}
    if kind == 'append_token':
        t = rng.choice(TOKEN_ALPHABET)
        sep = rng.choice([' ', ' ', '\n', '\t', ''])
        return text + sep + t, {'kind': kind, 'token': t, 'sep': sep}
    if kind == 'append_after_odd_space':
        c = rng.choice(ODD_SPACE)
        t = rng.choice(TOKEN_ALPHABET + ['this is not RING at all'])
        pre = rng.choice(['', '', ' ', '\n'])
        return text + pre + c + t, {'kind': kind, 'ch': ord(c), 'token': t}
    if kind == 'append_fragment':
        extra = gen_fragment(rng, max_atoms=2, layout=False)
        return text + '\n' + extra, {'kind': kind}
    return text, {'kind': kind, 'noop': True}
