"""Library-store worlds: abstract data, presentations (unit conventions),
rendering to YAML files, and the reference model (DESIGN 3.2).

The model never parses YAML and never touches pgradd.  Unit factors are the
harness's own constants.
"""
from decimal import Decimal

R_GAS = 8.314472                     # J/(mol K), pgradd/Consts.py
EV_PER_MOLECULE = 1.602176487e-19 * 6.02214179e23

E_UNITS = {'J/mol': 1.0, 'kJ/mol': 1e3, 'cal/mol': 4.184, 'kcal/mol': 4184.0,
           'eV/molecule': EV_PER_MOLECULE, 'MJ/mol': 1e6, 'mJ/mol': 1e-3,
           'J/mmol': 1e3, 'kcal/kmol': 4.184, 'hJ/mol': 100.0,
           'daJ/mol': 10.0,
           # other spellings of the same units (products, powers,
           # juxtaposition, base units)
           'J mol^-1': 1.0, 'kJ*mol^-1': 1e3, 'cal mol^(-1)': 4.184,
           'kcal/(mol)': 4184.0, 'kg m^2/s^2/mol': 1.0, 'N m/mol': 1.0,
           'kJ/kmol': 1.0, 'erg/molecule': 1e-7 * 6.02214179e23,
           # a bare number divided by a unit, numbers inside the unit string
           '1/mol kJ': 1e3, 'kJ (1/mol)': 1e3, '1/kmol kJ': 1.0,
           '1/(mol/kJ)': 1e3, 'kJ/(2 mol) 2': 1e3}
S_UNITS = {'J/(mol*K)': 1.0, 'kJ/(mol*K)': 1e3, 'cal/(mol*K)': 4.184,
           'kcal/(mol*K)': 4184.0, 'eV/(molecule*K)': EV_PER_MOLECULE,
           'J/mol/K': 1.0, 'cal/(mol K)': 4.184, 'mJ/(mol*K)': 1e-3,
           'J/(K*mol)': 1.0, 'J mol^-1 K^-1': 1.0, 'cal/K/mol': 4.184,
           'J/mol K^-1': 1.0, 'kJ/(kmol*K)': 1.0,
           'J (1/(mol K))': 1.0, '1/(mol K) J': 1.0, 'kJ (1/(mol kK))': 1.0,
           '1/mol/K cal': 4.184}
T_UNITS = {'K': 1.0, 'mK': 1e-3, 'kK': 1e3}
BLOCK_E = ['kcal/mol', 'kJ/mol', 'J/mol', 'cal/mol', 'eV/molecule',
           '1/kmol kJ']
BLOCK_S = ['cal/(mol*K)', 'J/(mol*K)', 'kJ/(mol*K)', 'kcal/(mol*K)',
           'eV/(molecule*K)', '1/(mol K) J']

CSG = ['C', 'O', 'CO', 'C[d]', 'N[A]', 'C[.]', 'Pt']
PSG = ['C', 'H', 'O', 'CO', 'C[d]', 'Pt', 'N[A]', 'C[B]']
DESCS = ['ring strain', 'Oxirane', 'gauche', 'surface-ring strain', 'Cis']
T_GRID = [150.0, 200.0, 250.0, 279.0, 298.15, 300.0, 350.0, 400.0, 500.0,
          600.0, 700.0, 800.0, 951.0, 1000.0, 1200.0, 1500.0]
SCHEME_TEXT = """patterns:
-   center_name: 'C'
    periph_name: 'C'
    connectivity: 'fragment a{
    C labeled c1}'
"""


def fmt(x):
    """Exact plain-decimal rendering of a float (no exponent: the units
    tokenizer has no exponent syntax)."""
    if isinstance(x, int):
        return str(x)
    s = format(Decimal(repr(float(x))), 'f')
    if s.endswith('.0'):
        s = s[:-2]
    return s


def sig(x, n=6):
    """Round to n significant digits (values are drawn like measured data)."""
    if x == 0:
        return 0.0
    return float('%.*g' % (n, x))


def canonical_key(csg, psgs):
    counts = {}
    for p in psgs:
        counts[p] = counts.get(p, 0) + 1
    s = csg
    for name in sorted(counts):
        s += '(' + name + ')' + ('%d' % counts[name] if counts[name] > 1 else '')
    return s


def spell(rng, csg, psgs):
    """A random spelling of the same group: peripheral order and run-length
    spelling vary."""
    order = list(psgs)
    rng.shuffle(order)
    s = csg
    i = 0
    while i < len(order):
        j = i
        while j + 1 < len(order) and order[j + 1] == order[i]:
            j += 1
        run = j - i + 1
        while run > 0:
            take = rng.randrange(1, run + 1)
            s += '(' + order[i] + ')' + ('%d' % take if take > 1 else '')
            run -= take
        i = j + 1
    return s


# ---------------------------------------------------------------- worlds

def gen_abstract(rng, opts):
    """Abstract world: files with entries holding SI values.

    opts: dup (allow a datum in several files), zero (zero stratum),
    max_groups, above (allow reference temperature above/at end of table).
    """
    tref_choice = rng.choice([None, None, 298.15, 298.0, 300.0, 273.15])
    # stratum: temperatures with more than six significant digits (what the
    # writer rounds), also exactly at range bounds
    fine = opts.get('fine_T', True) and rng.random() < 0.15
    grid = list(T_GRID)
    if fine:
        off = rng.choice([0.5678, 0.123456, 0.0004])
        grid = [t + off if t != 298.15 else t for t in T_GRID]
        if tref_choice not in (None, 298.15):
            tref_choice = tref_choice + off
    tref = 298.15 if tref_choice is None else tref_choice
    ngroups = rng.randrange(2, opts.get('max_groups', 6) + 1)
    keys = []
    seen = set()
    while len(keys) < ngroups:
        csg = rng.choice(CSG)
        psgs = [rng.choice(PSG) for _ in range(rng.randrange(1, 5))]
        k = canonical_key(csg, psgs)
        if k not in seen:
            seen.add(k)
            keys.append({'key': k, 'kind': 'group', 'csg': csg, 'psgs': psgs})
    for name in rng.sample(DESCS, rng.randrange(0, 3)):
        keys.append({'key': name, 'kind': 'desc'})
    nfiles = rng.randrange(1, 5) if opts.get('dup', True) else \
        rng.randrange(1, 4)
    # File names repeat across directories on purpose ('gas/extra.yaml',
    # 'surf/extra.yaml'): two parents then write the very same include
    # string for two different files.
    fnames = ['library.yaml']
    dirs = ['', 'gas/', 'surf/', 'gas/sub/']
    bases = ['extra.yaml', 'index.yaml', 'data.yaml']
    files = {'library.yaml': {'include': [], 'entries': []}}
    depth = {'library.yaml': 0}
    for i in range(1, nfiles + 2):
        cands = [p for p in fnames if depth[p] < 3]
        parent = rng.choice(cands)
        pdir = parent.rsplit('/', 1)[0] + '/' if '/' in parent else ''
        for _ in range(20):
            d = pdir if rng.random() < 0.4 else rng.choice(dirs)
            name = d + rng.choice(bases)
            if name not in files:
                break
        else:
            name = pdir + 'part%d.yaml' % i
        fnames.append(name)
        files[name] = {'include': [], 'entries': []}
        depth[name] = depth[parent] + 1
        files[parent]['include'].append(name)
    index_files = []
    if opts.get('dup', True) and rng.random() < 0.25 and \
            'gas/index.yaml' not in files and 'surf/index.yaml' not in files:
        # two pure index files, byte-identical, in two directories: the same
        # relative include string names two different data files
        base = rng.choice(['groups.yaml', 'extra.yaml'])
        for d in ('gas/', 'surf/'):
            idx_name, data_name = d + 'index.yaml', d + base
            if data_name in files:
                continue
            files[idx_name] = {'include': [data_name], 'entries': []}
            files[data_name] = {'include': [], 'entries': []}
            files['library.yaml']['include'].append(idx_name)
            fnames.extend([idx_name, data_name])
            index_files.append(idx_name)
    strata = set()
    if index_files:
        strata.add('twin_index_files')
    if fine:
        strata.add('fine_temperatures')
    for kd in keys:
        placement = rng.choice(['inside', 'inside', 'below', 'at_low_end',
                                'at_high_end', 'above', 'none'])
        if not opts.get('above', True) and placement in ('above',
                                                         'at_high_end'):
            placement = 'inside'
        npts = 0 if placement == 'none' else rng.randrange(1, 9)
        lo_grid = [t for t in grid if t < tref]
        hi_grid = [t for t in grid if t > tref]
        if placement == 'below':          # T_ref below the whole table
            pool = hi_grid
        elif placement == 'above':        # T_ref above the whole table
            pool = lo_grid
        elif placement == 'at_low_end':
            pool = [tref] + hi_grid
        elif placement == 'at_high_end':
            pool = lo_grid + [tref]
        else:
            pool = lo_grid + hi_grid + ([tref] if rng.random() < 0.3 else [])
        npts = min(npts, len(pool))
        temps = sorted(rng.sample(pool, npts)) if npts else []
        if placement == 'at_low_end' and temps and tref not in temps:
            temps = sorted([tref] + temps[1:])
        if placement == 'at_high_end' and temps and tref not in temps:
            temps = sorted(temps[:-1] + [tref])
        if temps:
            strata.add('tref_' + placement)
        cp = dict((t, sig(rng.uniform(2.0, 90.0))) for t in temps)
        H = sig(rng.uniform(-4e5, 2e5)) if rng.random() < 0.8 else None
        S = sig(rng.uniform(-80.0, 300.0)) if rng.random() < 0.8 else None
        if opts.get('zero') and rng.random() < 0.35:
            which = rng.choice(['H', 'S', 'Cp'])
            if which == 'H':
                H = 0.0
                strata.add('zero_H')
            elif which == 'S':
                S = 0.0
                strata.add('zero_S')
            elif cp:
                cp[rng.choice(sorted(cp))] = 0.0
                strata.add('zero_Cp')
        elif opts.get('whole', True) and rng.random() < 0.06:
            # a value whose non-dimensional form is a whole number of 7 to 15
            # digits (written '1234567.0': nothing after the point to keep
            # a formatter honest)
            k = float(rng.choice([-1, 1]) *
                      rng.randrange(10 ** 6, 10 ** rng.randrange(7, 16)))
            which = rng.choice(['H', 'S', 'Cp'])
            if which == 'H':
                H = k * R_GAS * tref
                strata.add('whole_nd_H')
            elif which == 'S':
                S = k * R_GAS
                strata.add('whole_nd_S')
            elif cp:
                cp[rng.choice(sorted(cp))] = k * R_GAS
                strata.add('whole_nd_Cp')
        lo_all = min([tref] + temps)
        hi_all = max([tref] + temps)
        full_lo = rng.choice([lo_all, lo_all, min(lo_all, 100.0)])
        full_hi = rng.choice([hi_all, max(hi_all, 1500.0),
                              max(hi_all, 2000.0)])
        # data list
        data = []
        if H is not None:
            data.append(('H', None))
        if S is not None:
            data.append(('S', None))
        for t in temps:
            data.append(('Cp', t))
        has_range = bool(temps) or rng.random() < 0.5
        # assign to files
        data_files = [f for f in fnames if f not in index_files]
        use = [f for f in data_files if rng.random() < 0.6] or \
            [rng.choice(data_files)]
        ent = {}
        for d in data or [('none', None)]:
            n = 1
            if opts.get('dup', True) and rng.random() < 0.25:
                n = rng.randrange(2, min(4, len(use)) + 1) if len(use) > 1 else 1
            for f in rng.sample(use, min(n, len(use))):
                e = ent.setdefault(f, {'H': None, 'S': None, 'Cp': {},
                                       'range': None})
                if d[0] == 'H':
                    e['H'] = H
                elif d[0] == 'S':
                    e['S'] = S
                elif d[0] == 'Cp':
                    e['Cp'][d[1]] = cp[d[1]]
        spare = [f for f in data_files if f not in ent]
        if ent and spare and opts.get('range_part', True) and \
                rng.random() < 0.12:
            # one more part, in another file, that gives nothing but a range
            # reaching beyond the others (the merged range is the hull,
            # whichever part arrives first)
            ent[rng.choice(spare)] = {
                'H': None, 'S': None, 'Cp': {},
                'range': (min(full_lo, lo_all) - rng.choice([0.0, 25.0, 50.0]),
                          max(full_hi, hi_all) + rng.choice([0.0, 100.0,
                                                             500.0]))}
            strata.add('range_only_part')
        for f, e in ent.items():
            if e['range'] is not None and not e['Cp'] and e['H'] is None \
                    and e['S'] is None:
                pass                      # the range-only part made above
            elif e['Cp']:
                lo = min(list(e['Cp']) + [tref])
                hi = max(list(e['Cp']) + [tref])
                e['range'] = (rng.choice([lo, full_lo]),
                              rng.choice([hi, full_hi]))
            elif has_range and rng.random() < 0.5:
                e['range'] = (full_lo, full_hi)
            entry = {'key': kd['key'], 'kind': kd['kind'],
                     'spelling': spell(rng, kd['csg'], kd['psgs'])
                     if kd['kind'] == 'group' else kd['key'],
                     'H': e['H'], 'S': e['S'],
                     'Cp': dict((repr(t), v) for t, v in e['Cp'].items()),
                     'range': list(e['range']) if e['range'] else None}
            files[f]['entries'].append(entry)
    return {'T_ref': tref_choice, 'files': files, 'root': 'library.yaml',
            'strata': sorted(strata)}


def data_locations(aw):
    """(key, datum) -> list of files containing it."""
    loc = {}
    for f, fd in aw['files'].items():
        for e in fd['entries']:
            if e['H'] is not None:
                loc.setdefault((e['key'], 'H'), []).append(f)
            if e['S'] is not None:
                loc.setdefault((e['key'], 'S'), []).append(f)
            for t in e['Cp']:
                loc.setdefault((e['key'], 'Cp'), [])
                if f not in loc[(e['key'], 'Cp')]:
                    loc[(e['key'], 'Cp')].append(f)
    return loc


def gen_presentation(rng, aw, style=None):
    """Choose a unit presentation.  Data present in several files get a
    file-independent form (explicit unit or non-dimensional) so that the
    same datum is rendered byte-identically everywhere."""
    loc = data_locations(aw)
    style = style or rng.choice(['block', 'explicit', 'nd', 'mixed', 'mixed'])
    pres = {'style': style, 'files': {}, 'data': {}}
    for f in aw['files']:
        if style in ('block', 'mixed') or rng.random() < 0.3:
            blk = {'molar enthalpy': rng.choice(BLOCK_E),
                   'molar entropy': rng.choice(BLOCK_S),
                   'molar heat capacity': rng.choice(BLOCK_S),
                   'temperature': 'K'}
        else:
            blk = None
        pres['files'][f] = {'units': blk, 'T_unit': 'K',
                            'T_bare': blk is not None and rng.random() < 0.6}
    for (key, datum), fs in sorted(loc.items()):
        single = len(fs) == 1
        all_blocks = all(pres['files'][f]['units'] for f in fs)
        forms = []
        if style == 'block':
            forms = ['bare'] if (single and all_blocks) else ['explicit']
        elif style == 'explicit':
            forms = ['explicit']
        elif style == 'nd':
            forms = ['nd']
        else:
            forms = ['explicit', 'nd'] + (['bare'] if single and all_blocks
                                          else [])
        form = rng.choice(forms)
        units = E_UNITS if datum == 'H' else S_UNITS
        pres['data']['%s|%s' % (key, datum)] = {
            'form': form, 'unit': rng.choice(sorted(units)),
            'style': rng.choice(['plain', 'plain', 'plain', 'exp', 'quoted',
                                 'dot'])}
        if datum in ('H', 'S') and rng.random() < 0.08:
            # 'template style': the unused alternative key is written too,
            # with an explicit null, before or after the used one
            pres['data']['%s|%s' % (key, datum)]['null_alt'] = \
                rng.choice(['~ before', '~ after', 'null before',
                            'null after'])
    return pres


def styled(num, style):
    """Spell a number: plain decimal, exponent notation without a dot (a
    YAML *string* for the YAML 1.1 resolver, still a number for the
    loader), or quoted."""
    txt = fmt(num)
    if style == 'exp':
        neg = txt.startswith('-')
        body = txt.lstrip('-')
        if '.' in body:
            ip, fp = body.split('.')
            digits = (ip + fp).lstrip('0') or '0'
            txt = '%s%se-%d' % ('-' if neg else '', digits, len(fp))
        else:
            txt = '%s%se0' % ('-' if neg else '', body)
    elif style == 'quoted':
        txt = "'%s'" % txt
    elif style == 'dot':
        txt = dotted(txt)
    return txt


def dotted(txt):
    """Hand-written spellings of a decimal: no zero before the point
    ('.5', '-.75'), or a bare point after an integer ('7.')."""
    if 'e' in txt or 'E' in txt or 'n' in txt:      # exponent, nan, inf
        return txt
    neg = '-' if txt.startswith('-') else ''
    body = txt.lstrip('-')
    if body.startswith('0.') and len(body) > 2:
        return neg + body[1:]
    if '.' not in body:
        return neg + body + '.'
    return txt


def render_value(si, kind, form, unit, block, style='plain'):
    """-> (yaml key suffix 'nd'|'dim', text, model value in SI)."""
    units = E_UNITS if kind == 'H' else S_UNITS
    if form == 'bare':
        u = block['molar enthalpy'] if kind == 'H' else \
            (block['molar entropy'] if kind == 'S'
             else block['molar heat capacity'])
        num = sig(si / units[u], 15)
        return 'dim', styled(num, style), num * units[u]
    num = sig(si / units[unit], 15)
    if style == 'quoted':
        return 'dim', "'%s %s'" % (fmt(num), unit), num * units[unit]
    return 'dim', '%s %s' % (styled(num, style), unit), num * units[unit]


def render(aw, pres, scheme_dir='/sim/w'):
    """-> (files {abs path: text}, model entries {fname: [entry_nd...]})."""
    tref = 298.15 if aw['T_ref'] is None else aw['T_ref']
    out = {scheme_dir + '/scheme.yaml': SCHEME_TEXT}
    model = {}
    for f, fd in aw['files'].items():
        pf = pres['files'][f]
        blk = pf['units']
        tunit = pf.get('T_unit', 'K')
        tfac = T_UNITS[tunit]
        if tunit != 'K':
            # a prefixed temperature unit is only used when every
            # temperature of the file survives the conversion exactly;
            # otherwise a range end written as '0.29815 kK' is one ulp above
            # a reference temperature of 298.15 K and the file is no longer
            # the same data
            temps = [tref]
            for e in fd['entries']:
                temps += [float(t) for t in e['Cp']]
                temps += list(e['range'] or [])
            if any(sig(x / tfac, 12) * tfac != x for x in temps):
                tunit, tfac = 'K', 1.0

        def T(x):
            num = sig(x / tfac, 12)
            if pf.get('T_bare') and blk and blk.get('temperature') == tunit:
                return fmt(num), num * tfac
            return '%s %s' % (fmt(num), tunit), num * tfac
        lines = []
        if blk and fd['entries']:
            lines.append('units:')
            for k in sorted(blk):
                lines.append('    %s: %s' % (k, blk[k]))
            lines.append('')
        if fd['include']:
            lines.append('include:')
            base = f.rsplit('/', 1)[0] + '/' if '/' in f else ''
            for inc in fd['include']:
                rel = _relpath(inc, base)
                lines.append('    - %s' % rel)
            lines.append('')
        mentries = []
        for section, kind in (('groups', 'group'), ('other_descriptors',
                                                    'desc')):
            ents = [e for e in fd['entries'] if e['kind'] == kind]
            if not ents:
                continue
            lines.append('%s:' % section)
            for e in ents:
                lines.append("    '%s':" % e['spelling'])
                empty = (aw['T_ref'] is None and e['H'] is None and
                         e['S'] is None and not e['Cp'] and not e['range'])
                lines.append("        'thermochem':" + (' {}' if empty else ''))
                m = {'key': e['key'], 'H': None, 'S': None, 'Cp': {},
                     'range': None}
                if aw['T_ref'] is not None:
                    ttxt, tk = T(tref)
                    lines.append('            T_ref: %s' % ttxt)
                    m['T_ref'] = tk
                else:
                    m['T_ref'] = 298.15
                for datum in ('H', 'S'):
                    if e[datum] is None:
                        continue
                    p = pres['data']['%s|%s' % (e['key'], datum)]
                    if p['form'] == 'nd':
                        nd = e[datum] / (R_GAS * tref) if datum == 'H' \
                            else e[datum] / R_GAS
                        nd = sig(nd, 15)
                        ndtxt = repr(nd)
                        if p.get('style') == 'dot':
                            ndtxt = dotted(ndtxt)
                        used = '            ND_%s_ref: %s' % (datum, ndtxt)
                        other = '            %s_ref: ' % datum
                        m[datum] = nd
                    else:
                        _, txt, si = render_value(e[datum], datum, p['form'],
                                                  p['unit'], blk,
                                                  p.get('style', 'plain'))
                        used = '            %s_ref: %s' % (datum, txt)
                        other = '            ND_%s_ref: ' % datum
                        m[datum] = si / (R_GAS * m['T_ref']) if datum == 'H' \
                            else si / R_GAS
                    na = p.get('null_alt')
                    if na:
                        word, where = na.split(' ')
                        lines.extend([other + word, used] if where == 'before'
                                     else [used, other + word])
                    else:
                        lines.append(used)
                if e['Cp']:
                    p = pres['data']['%s|Cp' % e['key']]
                    lines.append('            %s:' % ('ND_Cp_data'
                                                      if p['form'] == 'nd'
                                                      else 'Cp_data'))
                    for ts in sorted(e['Cp'], key=float):
                        ttxt, tk = T(float(ts))
                        if p['form'] == 'nd':
                            nd = sig(e['Cp'][ts] / R_GAS, 15)
                            ndtxt = repr(nd)
                            if p.get('style') == 'dot':
                                ndtxt = dotted(ndtxt)
                            lines.append('                - [%s, %s]'
                                         % (ttxt, ndtxt))
                        else:
                            _, txt, si = render_value(e['Cp'][ts], 'Cp',
                                                      p['form'], p['unit'],
                                                      blk,
                                                      p.get('style', 'plain'))
                            lines.append('                - [%s, %s]'
                                         % (ttxt, txt))
                            nd = si / R_GAS
                        m['Cp'][tk] = nd
                if e['range']:
                    lo_t, lo = T(e['range'][0])
                    hi_t, hi = T(e['range'][1])
                    lines.append('            range: [%s, %s]' % (lo_t, hi_t))
                    m['range'] = (lo, hi)
                mentries.append(m)
            lines.append('')
        if not lines:
            lines = ['groups: {}']       # never an empty file
        out[scheme_dir + '/' + f] = '\n'.join(lines) + '\n'
        model[f] = mentries
    return out, model


def _relpath(target, base):
    """Path of `target` relative to directory `base` ('' or 'a/b/'), both
    relative to the world root.  Only descends (includes live at or below
    their parent) or uses the target as is when not below."""
    if base and target.startswith(base):
        return target[len(base):]
    if not base:
        return target
    ups = base.count('/')
    return '../' * ups + target


# ----------------------------------------------------------------- model

class Conflict(Exception):
    def __init__(self, key, datum):
        Exception.__init__(self, '%s %s' % (key, datum))
        self.key = key
        self.datum = datum


def rec_copy(r):
    return {'T_ref': r['T_ref'], 'H': r['H'], 'S': r['S'],
            'Cp': dict(r['Cp']), 'range': r['range']}


def differs(a, b, rel=1e-13):
    if a == b:
        return False
    return abs(a - b) > rel * max(abs(a), abs(b))


def model_merge(dst, src, overwrite=False):
    """Union of two records of one group; Conflict unless overwrite."""
    out = rec_copy(dst)
    if src['range'] is not None:
        if out['range'] is None:
            out['range'] = src['range']
        else:
            out['range'] = (min(out['range'][0], src['range'][0]),
                            max(out['range'][1], src['range'][1]))
    for t, v in src['Cp'].items():
        if not overwrite and t in out['Cp'] and differs(out['Cp'][t], v):
            raise Conflict(None, 'Cp')
        out['Cp'][t] = v
    for d in ('H', 'S'):
        if src[d] is not None:
            if not overwrite and out[d] is not None and \
                    differs(out[d], src[d]):
                raise Conflict(None, d)
            out[d] = src[d]
    return out


def model_update(dst, src, overwrite=False):
    """Library-level union: dict key -> record.  Raises Conflict(key, ..)."""
    out = dict((k, rec_copy(v)) for k, v in dst.items())
    for k, r in src.items():
        if k not in out:
            out[k] = rec_copy(r)
        else:
            try:
                out[k] = model_merge(out[k], r, overwrite)
            except Conflict as c:
                raise Conflict(k, c.datum)
    return out


def file_order(aw, root):
    """Files in the order the loader merges them: a file's own entries,
    then each include recursively."""
    order = []

    def visit(f):
        order.append(f)
        for inc in aw['files'][f]['include']:
            visit(inc)
    visit(root)
    return order


def model_load(aw, model_entries, root):
    """The loader's semantics on the model: own entries, then
    Update(load(include)) for each include in order."""
    def load(f):
        lib = {}
        for m in model_entries[f]:
            if m['key'] in lib:
                raise KeyError('duplicate ' + m['key'])
            lib[m['key']] = rec_copy(m)
        for inc in aw['files'][f]['include']:
            lib = model_update(lib, load(inc))
        return lib
    return load(root)
