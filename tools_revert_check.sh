#!/bin/bash
# Sensitivity helper: revert one fix commit of /repo in the working tree,
# run a check, restore.  usage: tools_revert_check.sh <commit> <PROP> [env...]
set -u
commit=$1; prop=$2
cd /repo || exit 2
git diff --quiet || { echo "repo dirty"; exit 2; }
git diff "$commit~1" "$commit" | git apply -R || exit 2
cd /verif
timeout 1500 /venv/bin/python /verif/run_check.py "$prop" --tier quick 2>&1 | grep -v "^here" | grep -E "VIOLATION|signature|KNOWN|done in|HARNESS" | head -20
git -C /repo checkout -- .
