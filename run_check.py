#!/venv/bin/python
"""Entry point of the pgradd deterministic-simulation checks.

  run_check.py <PROP> --tier quick|thorough     run a check (coordinator)
  run_check.py <PROP> --replay <file>           replay a recorded violation
  run_check.py --setup                          verify the environment
  run_check.py --selftest-determinism <PROP>    seeds twice, fresh processes

Exit status: 0 = property held on everything explored (known findings are
printed as KNOWN-FINDING lines); 1 = VIOLATION (replay file written);
2 = harness error (never a pass).
"""
import argparse
import json
import os
import pickle
import subprocess
import sys
import tempfile
import time

HERE = os.path.dirname(os.path.abspath(__file__))
sys.path.insert(0, HERE)

PY = sys.executable
MODULES = {'C09': 'c09_text', 'C12': 'store', 'C13': 'store', 'C18': 'store',
           'C14': 'c14_locate', 'C15': 'c15_history', 'C17': 'c17_worklist'}
HASH_SEEDS = {'quick': [0, 4242], 'thorough': [0, 1, 4242]}
# fraction of the plan repeated under the non-primary hash seeds
SUBSET = {'quick': 0.25, 'thorough': 1.0}


def log(msg):
    sys.stderr.write(msg + '\n')
    sys.stderr.flush()


def child_env(hash_seed):
    env = dict(os.environ)
    env['PYTHONHASHSEED'] = str(hash_seed)
    env['PYTHONDONTWRITEBYTECODE'] = '1'
    env['PGRADD_VERIF'] = '1'
    env.pop('pgradd_DATA_DIR', None)
    return env


def load_module(prop):
    import importlib
    return importlib.import_module('checks.' + MODULES[prop])


# ------------------------------------------------------------------ cell

def cell_main(args):
    """One cell = one interpreter under a fixed PYTHONHASHSEED.  It imports
    pgradd and nothing else before forking its workers (it is the zygote)."""
    import pgradd                      # noqa
    import pgradd.ThermoChem           # noqa
    from sim import runner
    mod = load_module(args.prop)
    tasks = mod.plan(args.tier, args.seed, args.prop) \
        if mod.plan.__code__.co_argcount >= 3 else mod.plan(args.tier, args.seed)
    if args.max_tasks:
        step = max(1, len(tasks) // args.max_tasks)
        tasks = tasks[::step][:args.max_tasks]
    if args.subset < 1.0:
        keep = max(1, int(len(tasks) * args.subset))
        # deterministic, spread subset
        step = len(tasks) / float(keep)
        tasks = [tasks[int(i * step)] for i in range(keep)]
    t0 = time.time()
    try:
        outs = runner.run_tasks(MODULES[args.prop], tasks, args.workers,
                                task_timeout=args.task_timeout,
                                init_args=(args.prop, args.tier),
                                progress=50 if args.tier == 'thorough' else None)
    except runner.HarnessError as exc:
        with open(args.out, 'wb') as f:
            pickle.dump({'harness_error': str(exc)}, f)
        return 2
    results = []
    for o in outs:
        results.extend(o['results'])
    with open(args.out, 'wb') as f:
        pickle.dump({'results': results, 'wall': time.time() - t0,
                     'hash_seed': os.environ.get('PYTHONHASHSEED'),
                     'ntasks': len(tasks)}, f)
    return 0


def run_cell(prop, tier, seed, hash_seed, subset, workers, task_timeout,
             max_tasks=0):
    fd, out = tempfile.mkstemp(prefix='pgradd-verif-cell-', suffix='.pkl')
    os.close(fd)
    try:
        cmd = [PY, os.path.join(HERE, 'run_check.py'), '--cell', prop,
               '--tier', tier, '--seed', str(seed), '--subset', str(subset),
               '--workers', str(workers), '--out', out,
               '--task-timeout', str(task_timeout),
               '--max-tasks', str(max_tasks)]
        rc = subprocess.call(cmd, env=child_env(hash_seed), cwd=HERE,
                             stdout=sys.stderr)
        if os.path.getsize(out) == 0:
            return {'harness_error': 'cell exited %d without output' % rc}
        with open(out, 'rb') as f:
            return pickle.load(f)
    finally:
        os.unlink(out)


# ------------------------------------------------- shrink / replay (child)

def oneshot_main(args):
    """Run in a fresh interpreter: shrink or replay one explicit spec."""
    import pgradd                      # noqa
    if args.mode == 'fresh':
        with open(args.spec) as f:
            early = json.load(f).get('early_load')
        if early:
            # the documented slip "loaded before importing the module that
            # registers the property sets": only a warning and a library
            # without data; the import and a second load follow
            import contextlib
            import io
            import warnings
            from pgradd.GroupAdd.Library import GroupLibrary
            with warnings.catch_warnings(), \
                    contextlib.redirect_stdout(io.StringIO()):
                warnings.simplefilter('ignore')
                try:
                    GroupLibrary.Load(early)
                except Exception:
                    pass
    import pgradd.ThermoChem           # noqa
    mod = load_module(args.prop)
    if hasattr(mod, 'worker_init') and args.mode != 'fresh':
        mod.worker_init(args.prop, 'replay')
    with open(args.spec) as f:
        doc = json.load(f)
    spec = doc.get('spec')
    if args.mode == 'fresh':
        print('FRESH ' + mod.fresh_value(doc))
        return 0
    if args.mode == 'shrink':
        small = mod.shrink(spec, doc['violation']['signature'])
        viols, dig, info = mod.execute_spec(small)
        hit = [v for v in viols if v['signature'] == doc['violation']['signature']]
        if not hit:         # shrinking lost it: keep the original
            small = spec
            viols, dig, info = mod.execute_spec(small)
            hit = [v for v in viols
                   if v['signature'] == doc['violation']['signature']]
        doc['spec'] = small
        if hit:
            doc['violation'] = {k: hit[0][k] for k in
                                ('property', 'oracle', 'class', 'signature',
                                 'detail')}
        doc['event_log_sha256'] = dig
        with open(args.out, 'w') as f:
            json.dump(doc, f, indent=1, sort_keys=True)
        return 0
    # replay
    viols, dig, info = mod.execute_spec(spec)
    want = doc['violation']['signature']
    hit = [v for v in viols if v['signature'] == want]
    print('replay: event_log_sha256=%s (recorded %s)'
          % (dig, doc.get('event_log_sha256')))
    for v in viols:
        print('replay: violation %s %s' % (v['signature'],
                                           json.dumps(v['detail'])[:400]))
    if hit and dig == doc.get('event_log_sha256'):
        print('VIOLATION property=%s replay=%s' % (args.prop, args.spec))
        return 1
    if hit:
        print('replay: violation reproduced but the event log differs')
        print('VIOLATION property=%s replay=%s' % (args.prop, args.spec))
        return 1
    print('replay: the recorded violation did not reproduce')
    return 0


# ------------------------------------------------------------ coordinator

def write_evidence(prop, tier, seed, level, coverage, wall, nviol,
                   assumptions):
    # (VERIF_EVIDENCE_DIR: sensitivity runs against deliberately broken
    # trees must not overwrite the evidence of the real tree)
    evdir = os.environ.get('VERIF_EVIDENCE_DIR') or os.path.join(HERE,
                                                                 'evidence')
    os.makedirs(evdir, exist_ok=True)
    doc = {'property_id': prop, 'tier': tier, 'seed': seed, 'level': level,
           'coverage': coverage, 'assumptions': assumptions,
           'wall_s': round(wall, 2), 'violations': nviol}
    path = os.path.join(evdir, prop + '.json')
    tmp = path + '.tmp'
    from sim import core
    with open(tmp, 'w') as f:
        json.dump(core.canon_json(doc), f, indent=1, sort_keys=True)
    os.replace(tmp, path)


def coordinator(args):
    from sim import core, findings
    prop, tier, seed = args.prop, args.tier, args.seed
    mod = load_module(prop)
    t0 = time.time()
    log('[%s] tier=%s VERIF_SEED=%d workers=%d' % (prop, tier, seed,
                                                    args.workers))
    hash_seeds = HASH_SEEDS[tier]
    cells = {}
    for i, hs in enumerate(hash_seeds):
        subset = 1.0 if i == 0 else SUBSET[tier]
        tc = time.time()
        # the last cell also runs at another worker count: event logs must
        # not depend on how runs are spread over workers
        w = args.workers if i < len(hash_seeds) - 1 or args.workers < 4 \
            else max(2, args.workers // 2 - 1)
        cells[hs] = run_cell(prop, tier, seed, hs, subset, w,
                             args.task_timeout)
        if 'harness_error' in cells[hs]:
            log('HARNESS ERROR in cell PYTHONHASHSEED=%s:\n%s'
                % (hs, cells[hs]['harness_error']))
            return 2
        log('[%s] cell PYTHONHASHSEED=%s: %d results in %.1fs'
            % (prop, hs, len(cells[hs]['results']), time.time() - tc))
    primary = cells[hash_seeds[0]]['results']
    by_id = dict((r['id'], r) for r in primary)
    # determinism across hash seeds: same run id => same event-log digest
    compared = 0
    diverged = []
    for hs in hash_seeds[1:]:
        for r in cells[hs]['results']:
            p = by_id.get(r['id'])
            if p is None:
                continue
            compared += 1
            if p['digest'] != r['digest']:
                diverged.append((r['id'], hs, p['digest'][:12],
                                 r['digest'][:12]))
    hash_viols = []
    if diverged and hasattr(mod, 'hash_seed_dependence'):
        # the system under test itself may depend on the hash seed (e.g.
        # iteration over a set decides a merge order): where the property
        # covers that, it is a violation, not a harness problem
        hash_viols = mod.hash_seed_dependence(
            dict((hs, cells[hs]['results']) for hs in hash_seeds), diverged)
    unexplained_divergence = bool(diverged and not hash_viols)
    try:
        coverage = mod.summarise(primary, prop) \
            if mod.summarise.__code__.co_argcount >= 2 else mod.summarise(primary)
    except RuntimeError as exc:
        log('HARNESS ERROR: %s' % exc)
        return 2
    post_extra = {}
    more = []
    if hasattr(mod, 'post_check'):
        try:
            more, post_extra = mod.post_check(
                primary, tier, lambda docs: run_fresh(prop, docs))
        except RuntimeError as exc:
            log('HARNESS ERROR: %s' % exc)
            return 2
        coverage.update(post_extra)
    if hasattr(mod, 'cross_cell'):
        extra = mod.cross_cell(dict((hs, cells[hs]['results'])
                                    for hs in hash_seeds), prop)
    else:
        extra = []
    # collect violations from every cell
    viols = []
    counts = {}
    for hs in hash_seeds:
        for r in cells[hs]['results']:
            for v in r.get('violations', []):
                if v['property'] != prop:
                    continue
                v = dict(v)
                v['hash_seed'] = hs
                viols.append(v)
            for sig, n in (r.get('violation_counts') or {}).items():
                if hs == hash_seeds[0]:
                    counts[sig] = counts.get(sig, 0) + n
    for v in list(extra) + list(more) + list(hash_viols):
        v = dict(v)
        v.setdefault('hash_seed', hash_seeds[0])
        viols.append(v)
    known = findings.open_signatures(prop)
    first = {}
    for v in viols:
        first.setdefault(v['signature'], v)
        if v['signature'] not in counts:
            counts[v['signature']] = sum(1 for w in viols
                                         if w['signature'] == v['signature'])
    unknown = [s for s in first if s not in known]
    if unexplained_divergence:
        rid, hs, a, b = diverged[0]
        msg = ('run %s differs between PYTHONHASHSEED=%s and %s (%s vs %s); '
               '%d runs differ' % (rid, hash_seeds[0], hs, a, b,
                                   len(diverged)))
        if not unknown:
            log('HARNESS ERROR: %s: one seed is not one execution' % msg)
            return 2
        # violations were found: state leaking between operations of the
        # system under test also makes runs depend on how they are spread
        # over workers; the violations are what gets reported
        log('note: %s (reported violations take precedence)' % msg)
    wall_cells = time.time() - t0
    evals = max(1, coverage.get('evaluations', 1))
    coverage['runs_per_hour'] = int(evals / max(wall_cells, 1e-6) * 3600)
    coverage['hash_seeds'] = hash_seeds
    coverage['runs_compared_across_hash_seeds'] = compared
    coverage['determinism'] = (
        '%d runs were repeated in separate interpreters under other '
        'PYTHONHASHSEED values (last cell also at another worker count); '
        'all event-log digests identical' % compared)
    coverage['known_findings_hit'] = dict(
        (s, counts.get(s, 1)) for s in first if s in known)
    coverage['components'] = getattr(mod, 'COMPONENTS', None) or {
        'real': ['pgradd (all of it)', 'RDKit', 'numpy', 'scipy', 'PyYAML',
                 'pmutt'], 'stubs': ['clock', 'file system', 'environment',
                                     'process restart (fork of a zygote)']}
    for sig in sorted(first):
        if sig in known:
            print('KNOWN-FINDING: property=%s %s [%s] (%d hits)'
                  % (prop, known[sig]['what'], sig, counts.get(sig, 1)))
    rc = 0
    replays = []
    for sig in sorted(unknown)[:args.max_report]:
        v = first[sig]
        path = report_violation(prop, v, seed, args)
        replays.append(path)
        print('VIOLATION property=%s replay=%s' % (prop, path))
        print('  signature: %s' % sig)
        print('  detail: %s' % json.dumps(v['detail'])[:600])
        rc = 1
    if len(unknown) > args.max_report:
        print('  (+%d further violation signatures not minimised: %s)'
              % (len(unknown) - args.max_report,
                 sorted(unknown)[args.max_report:][:20]))
    coverage['unlisted_violation_signatures'] = sorted(unknown)
    write_evidence(prop, tier, seed, getattr(mod, 'LEVEL', 'exploration'),
                   coverage, time.time() - t0, len(unknown),
                   getattr(mod, 'ASSUMPTIONS', []))
    sys.stdout.flush()
    log('[%s] done in %.1fs: %d evaluations, %d distinct non-trivial, '
        '%d known-finding signatures, %d unlisted violations'
        % (prop, time.time() - t0, coverage.get('evaluations', 0),
           coverage.get('distinct_nontrivial', 0),
           len(coverage['known_findings_hit']), len(unknown)))
    return rc


def run_fresh(prop, docs, hash_seed=7, parallel=8):
    """Compute each doc in a genuinely new interpreter (fresh-process
    oracle without the fork shortcut)."""
    procs = []
    outs = [None] * len(docs)
    files = []
    for i, doc in enumerate(docs):
        fd, path = tempfile.mkstemp(prefix='pgradd-verif-fresh-',
                                    suffix='.json')
        with os.fdopen(fd, 'w') as f:
            json.dump(doc, f)
        files.append(path)
    try:
        i = 0
        running = []
        while i < len(docs) or running:
            while i < len(docs) and len(running) < parallel:
                cmd = [PY, os.path.join(HERE, 'run_check.py'), '--oneshot',
                       'fresh', prop, '--spec', files[i]]
                env = child_env(hash_seed)
                env.update(docs[i].get('env') or {})
                p = subprocess.Popen(cmd, env=env, cwd=HERE,
                                     stdout=subprocess.PIPE,
                                     stderr=subprocess.DEVNULL, text=True)
                running.append((i, p))
                i += 1
            j, p = running.pop(0)
            out, _ = p.communicate(timeout=300)
            for line in out.splitlines():
                if line.startswith('FRESH '):
                    outs[j] = line.split()[1]
    finally:
        for path in files:
            os.unlink(path)
    return outs


def report_violation(prop, v, seed, args):
    """Minimise in a fresh interpreter, write the replay file."""
    from sim import core
    os.makedirs(os.path.join(HERE, 'replays'), exist_ok=True)
    doc = {'property': prop, 'verif_seed': seed, 'run': v.get('run'),
           'hash_seed': v.get('hash_seed', 0), 'spec': v['spec'],
           'violation': {k: v[k] for k in ('property', 'oracle', 'class',
                                           'signature', 'detail')}}
    name = '%s-%s-%s.json' % (prop, str(v.get('run', 'x')).replace('/', '_'),
                              core.digest(v['signature'])[:8])
    path = os.path.join(HERE, 'replays', name)
    with open(path, 'w') as f:
        json.dump(doc, f, indent=1, sort_keys=True)
    if not args.no_shrink:
        cmd = [PY, os.path.join(HERE, 'run_check.py'), '--oneshot', 'shrink',
               prop, '--spec', path, '--out', path]
        try:
            subprocess.call(cmd, env=child_env(doc['hash_seed']), cwd=HERE,
                            stdout=sys.stderr, timeout=args.shrink_timeout)
        except subprocess.TimeoutExpired:
            log('shrinking timed out; replay file holds the unshrunk run')
    return path


def selftest_determinism(args):
    """One seed = one execution: the same plan is run in separate fresh
    interpreters at different worker counts and hash seeds; every run's
    event-log digest must be identical in all of them."""
    prop, tier, seed = args.prop, args.tier, args.seed
    n = args.max_tasks or 24
    configs = [(0, args.workers), (0, 3), (4242, args.workers), (0, args.workers),
               (1, 7)]
    base = None
    total = 0
    for hs, w in configs:
        cell = run_cell(prop, tier, seed, hs, 1.0, w, args.task_timeout,
                        max_tasks=n)
        if 'harness_error' in cell:
            log('HARNESS ERROR: %s' % cell['harness_error'])
            return 2
        digs = dict((r['id'], r['digest']) for r in cell['results'])
        log('[%s] selftest: PYTHONHASHSEED=%s workers=%d: %d runs'
            % (prop, hs, w, len(digs)))
        if base is None:
            base = digs
            total = len(digs)
            continue
        if set(digs) != set(base):
            print('DETERMINISM FAILURE: different run ids')
            return 2
        bad = [k for k in digs if digs[k] != base[k]]
        if bad:
            print('DETERMINISM FAILURE: %d of %d runs differ under '
                  'PYTHONHASHSEED=%s workers=%d, e.g. %s'
                  % (len(bad), len(digs), hs, w, bad[:5]))
            return 2
    print('determinism ok: %d runs x %d configurations, identical event-log '
          'digests' % (total, len(configs)))
    return 0


def replay_main(args):
    with open(args.replay) as f:
        doc = json.load(f)
    cmd = [PY, os.path.join(HERE, 'run_check.py'), '--oneshot', 'replay',
           args.prop, '--spec', os.path.abspath(args.replay)]
    return subprocess.call(cmd, env=child_env(doc.get('hash_seed', 0)),
                           cwd=HERE)


def setup_main():
    ok = True
    try:
        import pgradd
        import pgradd.ThermoChem  # noqa
        where = os.path.dirname(os.path.abspath(pgradd.__file__))
        print('pgradd imported from', where)
        if not where.startswith('/repo/'):
            print('WARNING: pgradd is not imported from /repo')
    except Exception as exc:
        print('cannot import pgradd:', exc)
        ok = False
    if not hasattr(sys, 'monitoring'):
        print('sys.monitoring missing (need Python >= 3.12)')
        ok = False
    if not hasattr(os, 'fork'):
        print('os.fork missing')
        ok = False
    for d in ('evidence', 'replays'):
        os.makedirs(os.path.join(HERE, d), exist_ok=True)
    print('setup', 'ok' if ok else 'FAILED')
    return 0 if ok else 2


def main():
    ap = argparse.ArgumentParser()
    ap.add_argument('prop', nargs='?')
    ap.add_argument('--tier', default=os.environ.get('VERIF_TIER', 'quick'),
                    choices=['quick', 'thorough'])
    ap.add_argument('--seed', type=int,
                    default=int(os.environ.get('VERIF_SEED', '0')))
    ap.add_argument('--workers', type=int,
                    default=int(os.environ.get('VERIF_WORKERS',
                                               str(min(16, os.cpu_count() or 1)))))
    ap.add_argument('--replay')
    ap.add_argument('--setup', action='store_true')
    ap.add_argument('--cell', action='store_true')
    ap.add_argument('--oneshot', dest='mode', choices=['shrink', 'replay', 'fresh'])
    ap.add_argument('--spec')
    ap.add_argument('--out')
    ap.add_argument('--subset', type=float, default=1.0)
    ap.add_argument('--task-timeout', type=int, default=900)
    ap.add_argument('--shrink-timeout', type=int, default=300)
    ap.add_argument('--max-report', type=int, default=8)
    ap.add_argument('--no-shrink', action='store_true')
    ap.add_argument('--max-tasks', type=int, default=0)
    ap.add_argument('--selftest-determinism', action='store_true')
    args = ap.parse_args()
    if args.setup:
        return setup_main()
    if args.prop not in MODULES:
        ap.error('unknown or unclaimed property %r (claimed: %s)'
                 % (args.prop, ', '.join(sorted(MODULES))))
    if args.cell:
        return cell_main(args)
    if args.mode:
        return oneshot_main(args)
    if args.replay:
        return replay_main(args)
    if args.selftest_determinism:
        return selftest_determinism(args)
    return coordinator(args)


if __name__ == '__main__':
    sys.exit(main())
